"""python -m vf.promote <replay/found/file.json> --status fixed|known|regression --finding F1 [--name short]
Copies a found replay into the committed corpus (replay/ or replay/known/)."""
import argparse, json, os, sys
HERE = os.path.dirname(os.path.dirname(os.path.abspath(__file__)))
ap = argparse.ArgumentParser()
ap.add_argument("path"); ap.add_argument("--status", default="regression"); ap.add_argument("--finding", default=None)
ap.add_argument("--name", default=None)
a = ap.parse_args()
d = json.load(open(a.path))
d["status"] = a.status; d["finding"] = a.finding
d.pop("traceback", None)
sub = "known" if a.status == "known" else ""
name = a.name or os.path.basename(a.path)[len(d["property"]) + 1:-5]
out = os.path.join(HERE, "replay", sub, f"{d['property']}-{(a.finding + '-') if a.finding else ''}{name}.json")
os.makedirs(os.path.dirname(out), exist_ok=True)
json.dump(d, open(out, "w"), indent=1)
print(out)
