"""C11 - only what is missing is computed, and only what policy allows is saved.

Oracle: an independent planner reference (from the property text) predicts, for a generated graph / stored subsets
per storage frontend (with readonly / take_only / exclude filters) / targets / save= / request modifier /
forbid_creation_of: the set of plugins that run, the set of data types loaded, the data types saved per frontend,
and the explicit error if any.  Compared with (a) Context.get_components, (b) compute-call counters after the real
request (0 for plugins that must not run, never doubled), (c) directory listing after - before per frontend,
(d) the returned rows (== whole-run reference for non-partial requests), (e) the exception raised.
"""
import itertools
import os
import shutil

from hypothesis import strategies as st

import strax
from vf import gen, graphs
from vf.core import SubCheck, Violation
from vf.findings import signature
from vf.props import c01
from vf.sched import policies

PROPERTY_ID = "C11"
LEVEL = "exploration"
ENV = {"NUMBA_DISABLE_JIT": "1"}
RULE = (
    "A case = plugin graph with per-output save policies x physically stored subsets in 1-2 DataDirectory "
    "frontends (readonly / take_only / exclude filters) x targets (one, or two of one kind) x save= x modifier in "
    "{none, time_range, selection, keep_columns, drop_columns, fuzzy_for, fuzzy_for_options, allow_incomplete} x "
    "forbid_creation_of x processor (threaded runs under the controlled scheduler), drawn from Hypothesis. "
    "Non-trivial = the visible stored subset is neither empty nor everything and the graph has >= 3 data types. "
    "distinct = distinct descriptor hashes."
)
ASSUMPTIONS = [
    "planner reference: a data type is loaded iff needed and visible in some frontend; a plugin runs iff one of its "
    "outputs is needed and not visible; saved = outputs of running plugins that are not visible and whose policy "
    "admits saving (ALWAYS; TARGET iff it is a target; EXPLICIT iff in save=), in every non-readonly frontend that "
    "takes the type, and nothing for partial / fuzzy / allow_incomplete requests",
    "compute-call counts are predicted only where they are chunk-count determined: sources (= number of source "
    "chunks) and single-dependency plugins fed by a loader or by a one-chunk-per-call plugin",
    "numba helpers un-jitted; threaded runs pre-empted at synchronisation operations",
    "time-range requests are executed (not only planned) when the data under the time range is stored or everything is "
    "recomputed from sources: a time range mixing loaded (clipped) data with a recomputed source is compared with the "
    "planner only, and an explicit alignment error of a multi-dependency plugin that is recomputed on the fly from "
    "loaded inputs under a time range is not judged (no clause promises success there; stored targets under time "
    "ranges are C10's subject) - both counted as classes",
]
_COUNTER = itertools.count()
OPS = ("rowwise", "merge", "filter", "multi", "loop", "overlap", "downchunk")
MODIFIERS = ["none", "none", "none", "time_range", "selection", "keep_columns", "drop_columns", "fuzzy_for",
             "fuzzy_for_options", "allow_incomplete"]


@st.composite
def st_case(draw, threaded=None):
    d = draw(c01.st_case(threaded=threaded, ops=OPS))
    spec = d["spec"]
    if any(n.get("max_messages") is not None for n in spec["nodes"]):
        # C01's "capacity by Plugin.max_messages" variant assumes that nothing is loaded (loader-fed mailboxes only
        # honour the context-wide capacity); here arbitrary subsets are stored, so use the context-wide capacity
        for n in spec["nodes"]:
            n.pop("max_messages", None)
        d["cfg"]["max_messages"] = sum(len(c) + 1 for c in d["cutsA"].values()) + \
            sum(len(c) + 1 for c in d["cutsB"].values()) + 3
    for n in spec["nodes"]:
        n["rechunk_on_save"] = False
        n["target_rows"] = None
    types = graphs.all_types(spec)
    prov = graphs.providers(spec)
    kd = graphs.kinds(spec)
    storable = [t for t in types if graphs.save_when_of(prov[t], t) > 0]
    nfe = draw(st.integers(1, 2))
    fes = []
    for i in range(nfe):
        present = [t for t in storable if draw(st.integers(0, 2)) == 0]
        mode = draw(st.sampled_from(["all", "all", "take_only", "exclude"]))
        sel = [t for t in types if draw(st.booleans())]
        fes.append(dict(present=present, readonly=draw(st.integers(0, 3)) == 0,
                        take_only=sel if mode == "take_only" else [], exclude=sel if mode == "exclude" else []))
    d["frontends"] = fes
    d.pop("stored", None)
    targets = [d["target"]]
    same = [t for t in types if kd[t] == kd[d["target"]] and t != d["target"]]
    if same and draw(st.integers(0, 3)) == 0:
        targets.append(draw(st.sampled_from(same)))
    d["targets"] = targets
    explicit = [t for t in types if graphs.save_when_of(prov[t], t) == 1]
    d["save"] = [t for t in explicit if draw(st.booleans())]
    if graphs.save_when_of(prov[d["target"]], d["target"]) == 0 and draw(st.integers(0, 4)) == 0:
        d["save"].append(d["target"])  # saving a NEVER type must be refused
    d["modifier"] = draw(st.sampled_from(MODIFIERS))
    if len(targets) > 1:
        # the temporary merge plugin joins two paths that may share upstream data (a diamond): capacity above the
        # lag;  time ranges over several targets are C10's subject (known finding F13), not the planner's
        d["cfg"]["max_messages"] = sum(len(c) + 1 for c in d["cutsA"].values()) + \
            sum(len(c) + 1 for c in d["cutsB"].values()) + 3
        if d["modifier"] == "time_range":
            d["modifier"] = "none"
    t1u = d["t1"] * d["unit"]
    a = draw(st.integers(0, max(0, d["t1"] - 1))) * d["unit"]
    d["time_range"] = [a, draw(st.integers(a // d["unit"] + 1, d["t1"])) * d["unit"]] if t1u > 0 else [0, 1]
    d["fuzzy_type"] = draw(st.sampled_from(types))
    fk = draw(st.sampled_from(["none", "none", "star", "types"]))
    d["forbid"] = [] if fk == "none" else (["*"] if fk == "star" else [t for t in types if draw(st.integers(0, 2)) == 0])
    if draw(st.integers(0, 3)) == 0:
        _force_sibling_join(draw, d)
    return d


def _force_sibling_join(draw, d):
    """Both outputs of one multi-output plugin needed by one consumer, the first-visited one missing and the
    second one stored / forbidden / (both missing): the planner must treat the two outputs separately."""
    spec = d["spec"]
    src = [n for n in spec["nodes"] if n["op"] == "source" and not n.get("overlapping")]
    if not src:
        return
    s = src[0]["name"]
    names = {o for n in spec["nodes"] for o in graphs.outputs_of(n)} | {n["name"] for n in spec["nodes"]}
    if "jm" in names or "jj" in names:
        return
    variant = draw(st.sampled_from(["second_stored", "second_forbidden", "first_stored", "none_stored"]))
    sw = {"jmx": draw(st.integers(0, 3)), "jmy": draw(st.integers(1, 3))}
    if variant == "first_stored":
        sw["jmx"] = draw(st.integers(1, 3))
    spec["nodes"].append(dict(name="jm", op="multi", deps=[s], outs=["jmx", "jmy"], save_when=sw,
                              rechunk_on_save=False, target_rows=None))
    spec["nodes"].append(dict(name="jj", op="loop", deps=["jmx", "jmy"], save_when=draw(st.integers(0, 3)),
                              rechunk_on_save=False, target_rows=None))
    d["target"] = "jj"
    d["targets"] = ["jj"]
    d["modifier"] = draw(st.sampled_from(["none", "none", "selection", "allow_incomplete"]))
    d["save"] = [t for t in d["save"] if t != d.get("target")]
    for fe in d["frontends"]:
        fe["present"] = [t for t in fe["present"] if t not in ("jmx", "jmy", "jj")]
        fe["take_only"], fe["exclude"] = [], []
    d["forbid"] = []
    if variant == "second_stored":
        d["frontends"][0]["present"].append("jmy")
    elif variant == "first_stored":
        d["frontends"][0]["present"].append("jmx")
    elif variant == "second_forbidden":
        d["forbid"] = ["jmy"]
    d["cfg"]["max_messages"] = sum(len(c) + 1 for c in d["cutsA"].values()) + \
        sum(len(c) + 1 for c in d["cutsB"].values()) + 3


def takes(fe, t):
    return not (t in fe["exclude"] or (fe["take_only"] and t not in fe["take_only"]))


def plan(d):
    spec = d["spec"]
    prov = graphs.providers(spec)
    fes = d["frontends"]
    visible = {t for fe in fes for t in fe["present"] if takes(fe, t)}
    partial = d["modifier"] != "none"
    time_range = d["modifier"] == "time_range"
    seen, load, computed = set(), set(), set()
    not_available = []

    def visit(t):
        if t in seen:
            return
        seen.add(t)
        if t in visible:
            load.add(t)
            return
        if "*" in d["forbid"] or t in d["forbid"]:
            not_available.append(t)
        if time_range and graphs.save_when_of(prov[t], t) > 1:
            not_available.append(t)
        computed.add(t)
        for dep in prov[t].get("deps", []):
            visit(dep)

    for t in d["targets"]:
        visit(t)
    running = {prov[t]["name"] for t in computed}

    def should_save(o):
        sw = graphs.save_when_of(prov[o], o)
        return sw == 3 or (sw == 2 and o in d["targets"]) or (sw == 1 and o in d["save"])

    never_in_save = [o for o in d["save"] if graphs.save_when_of(prov[o], o) == 0 and o in computed]
    saved = set()
    if not partial:
        for n in spec["nodes"]:
            if n["name"] in running:
                for o in graphs.outputs_of(n):
                    if o not in visible and should_save(o):
                        saved.add(o)
    per_fe = [{o for o in saved if not fe["readonly"] and takes(fe, o)} for fe in fes]
    return dict(visible=visible, load=load, computed=computed, running=running, saved=saved, per_fe=per_fe,
                not_available=not_available, never_in_save=never_in_save)


def build_storage(d, classes, rt, base):
    """Make every storable type once in a plain directory (chunking A), then copy the chosen ones into each
    frontend directory.  Returns (list of frontend dirs, {type: directory name})."""
    spec = d["spec"]
    prov = graphs.providers(spec)
    pool = os.path.join(base, "pool")
    os.makedirs(pool)
    c01.set_sources(rt, d, "cutsA")
    ctx = c01.make_context(classes, [strax.DataDirectory(pool)])
    names = {}
    wanted = sorted({t for fe in d["frontends"] for t in fe["present"]})
    for t in wanted:
        try:
            ctx.make("r", t, save=(t,), processor="single_thread", progress_bar=False)
        except Exception as e:  # noqa
            raise Violation("prestore.raised:" + type(e).__name__, f"{e!r} making {t} {d}") from e
    for t in graphs.all_types(spec):
        names[t] = str(ctx.key_for("r", t))
    dirs = []
    for i, fe in enumerate(d["frontends"]):
        p = os.path.join(base, f"fe{i}")
        os.makedirs(p)
        for t in fe["present"]:
            shutil.copytree(os.path.join(pool, names[t]), os.path.join(p, names[t]))
        dirs.append(p)
    shutil.rmtree(pool)
    return dirs, names


def frontends(d, dirs):
    return [strax.DataDirectory(p, readonly=fe["readonly"], take_only=tuple(fe["take_only"]),
                                exclude=tuple(fe["exclude"])) for p, fe in zip(dirs, d["frontends"])]


def request_kwargs(d):
    m = d["modifier"]
    kw = {}
    ctx_kw = {}
    if m == "time_range":
        kw["time_range"] = tuple(d["time_range"])
    elif m == "selection":
        kw["selection"] = "time >= 0"
    elif m == "keep_columns":
        kw["keep_columns"] = ("time", "endtime")
    elif m == "drop_columns":
        kw["drop_columns"] = ("endtime",)
    elif m == "fuzzy_for":
        ctx_kw["fuzzy_for"] = (d["fuzzy_type"],)
    elif m == "fuzzy_for_options":
        ctx_kw["fuzzy_for_options"] = ("no_such_option",)
    elif m == "allow_incomplete":
        ctx_kw["allow_incomplete"] = True
    if d["forbid"]:
        ctx_kw["forbid_creation_of"] = tuple(d["forbid"])
    return kw, ctx_kw


def n_stored_chunks(path, dirname):
    import json
    for fn in os.listdir(os.path.join(path, dirname)):
        if fn.endswith("metadata.json"):
            with open(os.path.join(path, dirname, fn)) as f:
                return len(json.load(f)["chunks"])
    return None


def run_case(d):
    spec, unit = d["spec"], d["unit"]
    token = f"c11-{os.getpid()}-{next(_COUNTER)}"
    rt = graphs.new_runtime(token)
    base = c01.scratch_dir("c11")
    try:
        classes = graphs.build_classes(spec, token, unit)
        prov = graphs.providers(spec)
        ref = graphs.evaluate(spec, d["rows"], unit)
        dirs, names = build_storage(d, classes, rt, base)
        c01.set_sources(rt, d, "cutsB")
        P = plan(d)
        kw, ctx_kw = request_kwargs(d)
        targets = d["targets"] if len(d["targets"]) > 1 else d["targets"][0]
        expect_exc = None
        if P["never_in_save"] and P["not_available"]:
            expect_exc = (ValueError, strax.DataNotAvailable)  # whichever the traversal meets first
        elif P["never_in_save"]:
            expect_exc = ValueError
        elif P["not_available"]:
            expect_exc = strax.DataNotAvailable
        ename = getattr(expect_exc, "__name__", "ValueError|DataNotAvailable")
        tag = f"[modifier={d['modifier']}][forbid={bool(d['forbid'])}][fe={len(dirs)}]"
        cl = ["modifier:" + d["modifier"], d["cfg"]["processor"], f"frontends{len(dirs)}"]

        # ---- (a) get_components on a scratch copy of the storage (it creates temp dirs for the savers)
        copy = [p + "-gc" for p in dirs]
        for p, q in zip(dirs, copy):
            shutil.copytree(p, q)
        try:
            ctx = c01.make_context(classes, frontends(d, copy), d["cfg"], **ctx_kw)
            comps = err = None
            try:
                comps = ctx.get_components("r", targets=tuple(d["targets"]), save=tuple(d["save"]),
                                           time_range=kw.get("time_range"), selection=kw.get("selection"),
                                           keep_columns=kw.get("keep_columns"), drop_columns=kw.get("drop_columns"))
            except Exception as e:  # noqa
                err = e
            if len(d["targets"]) == 1:
                if expect_exc is not None:
                    if err is None or not isinstance(err, expect_exc):
                        raise Violation("components.expected_error_missing",
                                        f"{tag} expected {ename}, got {err!r}; plan {P} {d}")
                else:
                    if err is not None:
                        raise Violation("components.raised:" + type(err).__name__, f"{tag} {err!r} plan {P} {d}") from err
                    got_run = {prov[k]["name"] for k in comps.plugins}
                    got_load = set(comps.loaders)
                    got_save = {k for k, v in comps.savers.items() if v}
                    for sv in comps.savers.values():
                        for s_ in sv:
                            try:
                                s_.close()
                            except Exception:  # noqa
                                pass
                    if got_run != P["running"]:
                        raise Violation("components.plugins_to_run", f"{tag} got {sorted(got_run)} expected "
                                        f"{sorted(P['running'])} {d}")
                    if got_load != P["load"]:
                        raise Violation("components.loaders", f"{tag} got {sorted(got_load)} expected "
                                        f"{sorted(P['load'])} {d}")
                    exp_save = {o for s in P["per_fe"] for o in s}
                    if got_save != exp_save:
                        raise Violation("components.savers", f"{tag} got {sorted(got_save)} expected "
                                        f"{sorted(exp_save)} {d}")
            elif comps is not None:
                for sv in comps.savers.values():
                    for s_ in sv:
                        try:
                            s_.close()
                        except Exception:  # noqa
                            pass
        finally:
            for q in copy:
                shutil.rmtree(q, ignore_errors=True)

        # "Time range selection assumes data is already available" (strax's own words): under a time range the loaders
        # deliver clipped chunks, while a SOURCE plugin that has to be recomputed (not stored, policy <= EXPLICIT) produces
        # the whole run - a plugin joining the two gets inputs that do not line up and strax raises (ValueError /
        # RuntimeError, never wrong rows).  That mixture is outside what a time-range request is documented for: the
        # planner comparison above is kept, the execution is not judged.  (Everything recomputed from sources under a
        # time range - nothing loaded - is supported and is executed here and in C10's sub-check unsaved.)
        if d["modifier"] == "time_range" and expect_exc is None and P["load"] and any(
                n["op"] == "source" and n["name"] in P["running"] for n in spec["nodes"]):
            return dict(nt=False, classes=cl + ["time_range_mixing_loaded_data_with_a_recomputed_source:planner_only"])

        # ---- (b)-(e) the real request
        before = [set(c01.stored_dirs(p)) for p in dirs]
        rt["calls"].clear()
        ctx = c01.make_context(classes, frontends(d, dirs), d["cfg"], **ctx_kw)
        chunks, exc, S = c01.run_pipeline(ctx, targets, d["cfg"], d["policy"], save=tuple(d["save"]), **kw)
        calls = dict(rt["calls"])
        if expect_exc is not None:
            if exc is None or not isinstance(exc, expect_exc):
                raise Violation("request.expected_error_missing", f"{tag} expected {ename}, got "
                                f"{exc!r}; calls {calls}; plan {P} {d}")
            if any(calls.get(n["name"], 0) for n in spec["nodes"]):
                raise Violation("request.computed_although_not_allowed", f"{tag} calls {calls} plan {P} {d}")
            # (temp directories of savers created before the error surfaced are not "stored" data)
            after = [{x for x in c01.stored_dirs(p) if not x.endswith("_temp")} for p in dirs]
            if after != before:
                raise Violation("request.stored_something_on_error", f"{tag} {before} -> {after} {d}")
            return dict(nt=True, classes=cl + ["error:" + ename])
        if exc is not None:
            if d["modifier"] == "time_range" and isinstance(exc, ValueError) and "returned no chunks" in str(exc):
                return dict(nt=False, classes=cl + ["time_range_no_chunk"])
            if d["modifier"] == "time_range" and isinstance(exc, (RuntimeError, ValueError)) and any(
                    len(n.get("deps", ())) >= 2 and n["name"] in P["running"] for n in spec["nodes"]):
                # A plugin that is computed on the fly under a time range from two or more loaded inputs: every loader
                # widens the range to the rows straddling its edges, so inputs of different kinds / layouts may cover
                # different ranges and the input aligner raises (an explicit error, never wrong rows).  No clause of this
                # property promises that such a request succeeds ("time range selection assumes data is already
                # available"); time ranges over STORED targets are C10's subject.  Not judged, counted.
                return dict(nt=False, classes=cl + ["time_range_alignment_error_in_recomputed_multi_dependency_plugin"])
            raise Violation("request.raised:" + type(exc).__name__, f"{tag} {exc!r} plan {P} {d}") from exc
        c01.check_sched(S, d)
        # (b) who ran
        for n in spec["nodes"]:
            c = calls.get(n["name"], 0)
            if n["name"] in P["running"] and c == 0:
                raise Violation("calls.plugin_did_not_run", f"{tag} {n['name']} calls {calls} plan {P} {d}")
            if n["name"] not in P["running"] and c != 0:
                raise Violation("calls.plugin_ran_needlessly", f"{tag} {n['name']} ran {c}x, plan {P} {d}")
        # chunk-count determined call numbers: never doubled
        nchunks = {}
        for n in spec["nodes"]:
            nm, op = n["name"], n["op"]
            if nm not in P["running"]:
                continue
            if op == "source":
                exp = len(d["cutsB"][nm]) + 1
            elif len(n.get("deps", [])) == 1 and op in ("rowwise", "filter", "multi"):
                dep = n["deps"][0]
                if dep in P["load"]:
                    fe_i = next(i for i, fe in enumerate(d["frontends"]) if dep in fe["present"] and takes(fe, dep))
                    exp = n_stored_chunks(dirs[fe_i], names[dep])
                else:
                    exp = nchunks.get(prov[dep]["name"])
            else:
                exp = None
            if exp is not None and d["modifier"] != "time_range":
                if calls.get(nm, 0) != exp:
                    raise Violation("calls.count_differs", f"{tag} {nm} computed {calls.get(nm, 0)}x, expected {exp} "
                                    f"(one per input chunk); calls {calls} {d}")
                if op in ("source", "rowwise", "filter", "multi"):
                    nchunks[nm] = exp
        # (c) saved exactly what policy dictates, per frontend
        after = [set(c01.stored_dirs(p)) for p in dirs]
        for i, (b, a) in enumerate(zip(before, after)):
            new = {x.split("-")[1] for x in a - b}
            lost = b - a
            temp = [x for x in a if x.endswith("_temp")]
            if lost:
                raise Violation("storage.data_removed", f"{tag} frontend {i} lost {lost} {d}")
            if temp:
                raise Violation("storage.temp_left", f"{tag} frontend {i}: {temp} {d}")
            if new != P["per_fe"][i]:
                raise Violation("storage.saved_set_differs", f"{tag} frontend {i} ({d['frontends'][i]}) saved "
                                f"{sorted(new)} expected {sorted(P['per_fe'][i])}; plan {P} {d}")
        # (d) rows
        if d["modifier"] in ("none", "fuzzy_for", "fuzzy_for_options", "allow_incomplete", "selection") \
                and len(d["targets"]) == 1:
            c01.check_result(chunks, ref[d["target"]], 0, d["t1"] * unit, d, "result")
        if P["saved"]:
            cl.append("saves")
        if any(len(s) != len(P["saved"]) for s in P["per_fe"]):
            cl.append("frontend_filter_blocks_save")
        hidden = {t for fe in d["frontends"] for t in fe["present"] if not takes(fe, t)} - P["visible"]
        if hidden:
            cl.append("present_but_filtered")
        multi_part = [n for n in spec["nodes"] if n["op"] == "multi" and n["name"] in P["running"]
                      and len(set(n["outs"]) & P["visible"]) == 1]
        if multi_part:
            cl.append("multi_output_partially_stored")
        if len(d["targets"]) > 1:
            cl.append("two_targets")
        types = graphs.all_types(spec)
        nt = bool(P["visible"]) and P["visible"] != set(types) and len(types) >= 3
        return dict(nt=nt, classes=cl)
    finally:
        graphs.drop_runtime(token)
        shutil.rmtree(base, ignore_errors=True)


SUBCHECKS = [
    SubCheck("single", run_case, strategy=lambda: st_case(threaded=False), quick=3000, thorough=100000),
    SubCheck("threaded", run_case, strategy=lambda: st_case(threaded=True), quick=1600, thorough=60000),
]
