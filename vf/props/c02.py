"""C02 - stored data is reused only under an identical lineage (no stale reads).

Three sub-checks:

  history  model-based check of operation histories (set_config / register variants / in-place version bumps /
           new_context / make / get_array / get_array from a second context / fuzzy toggles) against ONE shared
           storage directory.  After every step: (i) every key equals the key of a FRESH context built from the
           model on an empty directory, (ii) over all pairs of visited states keys are equal iff the reference
           lineage is equal, (iii) get_array == fresh context on an empty directory == reference rows (under fuzzy
           matching: one of the admissible results of the model), (iv) is_stored iff matching data exists,
           (v) nothing is written under fuzzy matching, nothing is written under a key that is not current.
  keys     one state + one mutation, both evaluated on brand-new contexts: which keys change (all value kinds,
           including numpy scalars / arrays and immutabledict; permuted insertion orders).
  xproc    batches of states are sent to child interpreters with PYTHONHASHSEED in {1, 2, random} and permuted
           option / registration / dict insertion orders; all keys must agree with the parent's.

Reference model: vf/ref/c02_lineage.py (no strax code).
"""
import itertools
import json
import os
import shutil
import subprocess
import sys

import numpy as np
from hypothesis import strategies as st

import strax
from vf.core import SubCheck, Violation
from vf.ref import c02_lineage as R

PROPERTY_ID = "C02"
LEVEL = "exploration"
ENV = {"NUMBA_DISABLE_JIT": "1"}
RULE = (
    "history: a Hypothesis strategy draws an initial registry/config and a list of <= 30 operations (indices are "
    "interpreted modulo the current sizes, so every history is valid) over the plugin family src -> aa -> {bb, "
    "(c1,c2)} + child plugin ch of aa's class, with tracked / untracked / shared / child-overriding options; "
    "values come from small pools of ints, floats, strs, bools, None, tuples, lists, nested dicts with shuffled "
    "insertion order, numpy scalars/arrays, immutabledict (so that states are revisited and near-twins like "
    "1 / 1.0 / True - different values - or (1,2) / [1,2] - an ambiguous pair - occur).  Non-trivial = the history contains a make/get that stored data, "
    "followed by a lineage-affecting change, followed by a later get_array.  keys: non-trivial = the mutation "
    "changes the reference lineage of at least one but not of all data types.  xproc: non-trivial = the batch "
    "contains a nested dict or a numpy / immutabledict value.  distinct = distinct descriptor hashes.  (The shapes "
    "of the findings F4, F0230, F0231 - fixed in /repo - are generated and checked like everything else; their "
    "replays are regression cases.)"
)
ASSUMPTIONS = [
    "NUMBA_DISABLE_JIT=1 for all workers: the numba helpers are not the subject of this property",
    "option values: finite floats; dict keys are strings; immutabledict only at the top level of a value (a tuple "
    "holding an immutabledict makes deterministic_hash recurse forever) and no numpy.bool_ (not json-serialisable by "
    "NumpyJSONEncoder): both raise instead of producing a key, so no stale read can follow",
    "make / get_array are skipped (counted as class skip_unstorable) while a tracked option in the target's lineage "
    "holds a numpy integer / float32 / array or an immutabledict: FileSaver writes the lineage with plain json and "
    "raises TypeError for these - in the fresh context as well, so nothing can be compared; keys and is_stored are "
    "still checked for such states",
    "two values are 'certainly the same' only with identical types throughout (dict insertion order ignored) and "
    "'certainly different' when they differ in content or in the kind of a number (True / 1 / 1.0 are different "
    "values: the harness plugins compute different rows for them, so conflating them is a stale read); list == "
    "tuple == array, dict == immutabledict, numpy scalar == python scalar of the same kind and -0.0 == 0.0 are "
    "neither: both outcomes are accepted and counted as ambiguous_pair; under fuzzy matching numbers are compared "
    "by python equality, as a comparison of json-decoded lineages does",
    "registrations that Context.register documents to reject (two registered classes with different defaults for "
    "one option name) are not generated",
    "single DataDirectory frontend, save_when ALWAYS everywhere, default (single-thread) processor",
]

RUN = "r"
DTYPE = np.dtype(strax.time_fields + [("x", np.int64)])


# ----------------------------------------------------------------------------------------------------
# the real plugin family
# ----------------------------------------------------------------------------------------------------
def _to_array(rows):
    a = np.zeros(len(rows), DTYPE)
    for i, (t0, t1, x) in enumerate(rows):
        a[i]["time"], a[i]["endtime"], a[i]["x"] = t0, t1, x
    return a


def _to_rows(a):
    return [(int(r["time"]), int(r["endtime"]), int(r["x"])) for r in a]


def _eff(self):
    return {o: R.loose_of_object(v) for o, v in self.config.items()}


def _src_n(self):
    return R.rows_per_chunk(R.loose_of_object(self.config["s_u"]))


def _src_is_ready(self, chunk_i):
    n = _src_n(self)
    return chunk_i * n < R.N_ROWS


def _src_finished(self):
    return True


def _src_compute(self, chunk_i):
    rows = R.apply_plugin("src", "src", type(self).__name__, self.version(), _eff(self), [], None)
    n = _src_n(self)
    part = rows[chunk_i * n:(chunk_i + 1) * n]
    return self.chunk(start=10 * chunk_i * n, end=10 * min((chunk_i + 1) * n, R.N_ROWS), data=_to_array(part))


def _a_compute(self, k):
    parents = [[b.__name__, b.version()] for b in type(self).__bases__] if self.child_plugin else []
    slot = "ch" if self.child_plugin else "a"
    return _to_array(R.apply_plugin(slot, self.provides[0], type(self).__name__, self.version(), _eff(self),
                                    parents, _to_rows(k)))


def _b_compute(self, k):
    return _to_array(R.apply_plugin("b", "bb", type(self).__name__, self.version(), _eff(self), [], _to_rows(k)))


def _c_compute(self, k):
    rows = _to_rows(k)
    return {t: _to_array(R.apply_plugin("c", t, type(self).__name__, self.version(), _eff(self), [], rows))
            for t in ("c1", "c2")}


def make_class(state, ci, built, rng=None):
    """The real strax plugin class of class spec ci (memoised in `built`: {ci: class})."""
    if ci in built:
        return built[ci]
    spec = state["classes"][ci]
    slot = spec["slot"]
    names = list(R.OWN_OPTIONS[slot])
    if rng is not None:
        names = [names[i] for i in rng.permutation(len(names))]
    opts = []
    for o in names:
        kw = {}
        if o in R.CHILD_OVERRIDES:
            kw = dict(child_option=True, parent_option_name=R.CHILD_OVERRIDES[o])
        opts.append(strax.Option(o, default=R.build(spec["defaults"][o], rng), track=R.OWN_OPTIONS[slot][o], **kw))
    attrs = dict(__version__=spec["version"], provides=tuple(R.PROVIDES[slot]), depends_on=tuple(spec["deps"]),
                 compressor=spec["comp"])
    bases = (strax.Plugin,)
    if slot == "src":
        attrs.update(dtype=DTYPE, data_kind="k", rechunk_on_save=False, compute=_src_compute,
                     is_ready=_src_is_ready, source_finished=_src_finished)
    elif slot == "a":
        attrs.update(dtype=DTYPE, data_kind="k", compute=_a_compute)
    elif slot == "b":
        attrs.update(dtype=DTYPE, data_kind="k", compute=_b_compute)
    elif slot == "c":
        attrs.update(dtype=dict(c1=DTYPE, c2=DTYPE), data_kind=dict(c1="k", c2="k"), compute=_c_compute)
    else:
        bases = (make_class(state, spec["base"], built, rng),)
        attrs.update(child_plugin=True)
    cls = type(spec["name"], bases, attrs)
    cls = strax.takes_config(*opts)(cls)
    built[ci] = cls
    return cls


def build_config(state, rng=None):
    items = list(state["config"].items())
    if rng is not None:
        items = [items[i] for i in rng.permutation(len(items))]
    return {o: R.build(v, rng) for o, v in items}


def context_options(state):
    kw = {}
    if state["ff"]:
        kw["fuzzy_for"] = tuple(state["ff"])
    if state["ffo"]:
        kw["fuzzy_for_options"] = tuple(state["ffo"])
    return kw


def fresh_context(state, path, rng=None, built=None):
    """Brand-new context + brand-new class objects built from the model only."""
    built = {} if built is None else built
    slots = list(state["reg"])
    if rng is not None:
        slots = [slots[i] for i in rng.permutation(len(slots))]
    classes = [make_class(state, state["reg"][s], built, rng) for s in slots]
    return strax.Context(storage=[strax.DataDirectory(path)], register=classes, config=build_config(state, rng),
                         **context_options(state))


def keys_of_state(state, path, rng=None):
    ctx = fresh_context(state, path, rng)
    return {t: str(ctx.key_for(RUN, t)) for t in R.registered_types(state)}


def _base():
    return os.environ.get("VERIF_SCRATCH") or os.path.join(os.path.dirname(os.path.dirname(os.path.dirname(
        os.path.abspath(__file__)))), ".work", "tmp")


_COUNTER = itertools.count()


def scratch_dir(tag):
    d = os.path.join(_base(), f"c02{tag}-{os.getpid()}-{next(_COUNTER)}")
    shutil.rmtree(d, ignore_errors=True)
    os.makedirs(d)
    return d


# ----------------------------------------------------------------------------------------------------
# value / change strategies
# ----------------------------------------------------------------------------------------------------
INTS = [0, 1, 2, 3, -1, 2 ** 40, 10 ** 20]
FLOATS = [0.5, 1.0, 2.0, -0.0, 0.1, 0.3, 0.1 + 0.2, 1e-3, 1e300]
STRS = ["", "a", "1", "b c", "é"]
DICT_KEYS = ["a", "b", "c", "zz"]


@st.composite
def st_native(draw, depth=0):
    kinds = ["int", "int", "float", "str", "bool", "none"]
    if depth < 2:
        kinds += ["tuple", "list", "dict", "tuple", "dict"]
    k = draw(st.sampled_from(kinds))
    if k == "int":
        return {"k": "int", "v": draw(st.sampled_from(INTS))}
    if k == "float":
        return {"k": "float", "v": draw(st.sampled_from(FLOATS))}
    if k == "str":
        return {"k": "str", "v": draw(st.sampled_from(STRS))}
    if k == "bool":
        return {"k": "bool", "v": draw(st.booleans())}
    if k == "none":
        return {"k": "none"}
    if k in ("tuple", "list"):
        return {"k": k, "v": draw(st.lists(st_native(depth + 1), max_size=3))}
    keys = draw(st.lists(st.sampled_from(DICT_KEYS), min_size=1, max_size=3, unique=True))
    return {"k": "dict", "v": [[kk, draw(st_native(depth + 1))] for kk in keys]}


@st.composite
def st_numpyish(draw):
    k = draw(st.sampled_from(["np", "np", "arr", "imm", "seq_np"]))
    if k == "np":
        t = draw(st.sampled_from(["int64", "int32", "float64", "float32"]))
        v = draw(st.sampled_from([0, 1, 2, 3])) if t.startswith("int") else draw(st.sampled_from([0.5, 1.0, 2.0, 0.1]))
        return {"k": "np", "t": t, "v": v}
    if k == "arr":
        return draw(st.sampled_from([
            {"k": "arr", "t": "int64", "v": [1, 2]}, {"k": "arr", "t": "int64", "v": [1, 2, 3]},
            {"k": "arr", "t": "int32", "v": [1, 2]}, {"k": "arr", "t": "float64", "v": [0.5, 1.0]},
            {"k": "arr", "t": "float64", "v": [1.0, 2.0]}, {"k": "arr", "t": "int64", "v": [[1, 2], [3, 4]]},
            {"k": "arr", "t": "float64", "v": []}]))
    if k == "imm":
        keys = draw(st.lists(st.sampled_from(DICT_KEYS), min_size=1, max_size=3, unique=True))
        return {"k": "imm", "v": [[kk, draw(st_native(1))] for kk in keys]}
    inner = draw(st.lists(st.one_of(st_native(2), st_numpyish_leaf()), min_size=1, max_size=3))
    return {"k": draw(st.sampled_from(["tuple", "list"])), "v": inner}


@st.composite
def st_numpyish_leaf(draw):
    t = draw(st.sampled_from(["int64", "float64", "float32"]))
    if draw(st.booleans()):
        return {"k": "np", "t": t, "v": 1 if t == "int64" else 0.5}
    return {"k": "arr", "t": t, "v": [1, 2] if t == "int64" else [0.5, 1.0]}


# a handful of fixed values that make 'the same value again' and the ambiguous pairs frequent
COMMON = [R.V(1), R.V(2), R.V(1.0), R.V(True), R.V((1, 2)), R.V([1, 2]), R.V({"a": 1, "b": 2}), R.V({"b": 2, "a": 1}),
          R.V({"a": {"zz": (1, 2), "b": None}, "c": [1]}), R.V({"c": [1], "a": {"b": None, "zz": (1, 2)}}),
          R.V("a"), R.V(None), R.V(0.5)]


def st_value(numpyish=0.15):
    return st.one_of(st.sampled_from(COMMON), st.sampled_from(COMMON), st_native(),
                     st_numpyish() if numpyish else st_native())


@st.composite
def st_change(draw):
    """A class variant: which attributes of the registered class differ in the new class object."""
    ch = {}
    what = draw(st.lists(st.sampled_from(["name", "version", "default", "deps", "comp", "default", "name", "deps"]),
                         min_size=1, max_size=2, unique=True))
    for w in what:
        if w == "default":
            ch["default"] = draw(st.one_of(st.sampled_from(COMMON), st_native()))
            ch["dopt"] = draw(st.integers(0, 1))
        else:
            ch[w] = draw(st.integers(0, 3))
    if draw(st.booleans()):
        ch["rebase"] = True
    return ch


OP_KINDS = (["set_config"] * 6 + ["register"] * 4 + ["bump"] * 2 + ["new_context"] * 2 + ["make"] * 3 + ["get"] * 4
            + ["get2"] * 2 + ["fuzzy"] * 2)


@st.composite
def st_op(draw):
    k = draw(st.sampled_from(OP_KINDS))
    if k == "set_config":
        return dict(op=k, opt=draw(st.integers(0, len(R.ALL_OPTIONS) - 1)), val=draw(st_value()),
                    mode=draw(st.sampled_from(["update"] * 6 + ["setdefault", "replace"])))
    if k == "register":
        change = draw(st_change())
        return dict(op=k, slot=draw(st.integers(0, len(R.SLOTS) - 1)), change=change,
                    via=draw(st.sampled_from(["inplace", "inplace", "new_context"])))
    if k == "bump":
        return dict(op=k, cls=draw(st.integers(0, 11)), ver=draw(st.integers(0, 3)))
    if k == "new_context":
        cfg = draw(st.lists(st.tuples(st.integers(0, len(R.ALL_OPTIONS) - 1), st_value()).map(list), max_size=2))
        return dict(op=k, cfg=cfg)
    if k in ("make", "get", "get2"):
        d = dict(op=k, t=draw(st.integers(0, 5)))
        if k == "get" and draw(st.integers(0, 5)) == 0:
            d["kw"] = draw(st_fuzzy())
        return d
    return dict(op=k, how=draw(st.sampled_from(["set_context_config", "item", "new_context"])), **draw(st_fuzzy()))


@st.composite
def st_fuzzy(draw):
    shape = draw(st.sampled_from(["off", "ff", "ffo", "both", "ffo"]))
    ff = ffo = []
    if shape in ("ff", "both"):
        ff = draw(st.lists(st.integers(0, 5), min_size=1, max_size=2, unique=True))
    if shape in ("ffo", "both"):
        ffo = draw(st.lists(st.integers(0, len(R.ALL_OPTIONS) - 2), min_size=1, max_size=3, unique=True))
    # aim: 1 = also name the option that changed the lineage last, 2 = a data type of the class that changed last
    return dict(ff=ff, ffo=ffo, aim=draw(st.sampled_from([0, 0, 1, 1, 2, 3])) if shape != "off" else 0)


@st.composite
def st_init(draw):
    return dict(child=draw(st.sampled_from([True, True, True, False])),
                cfg=draw(st.lists(st.tuples(st.integers(0, len(R.ALL_OPTIONS) - 1), st_value()).map(list),
                                  max_size=3)),
                changes=draw(st.lists(st.tuples(st.integers(0, len(R.SLOTS) - 1), st_change()).map(list), max_size=2)))


# options / slots that are (in the base graph) part of the lineage of each data type index
RELEVANT_OPTS = {0: [0], 1: [2, 4, 0], 2: [5, 4, 2, 0], 3: [6, 2, 4, 0], 4: [6, 2, 4, 0], 5: [8, 9, 4, 0]}
RELEVANT_SLOTS = {0: [0], 1: [1, 0], 2: [2, 1, 0], 3: [3, 1, 0], 4: [3, 1, 0], 5: [4, 0]}
OFF = dict(op="fuzzy", how="set_context_config", ff=[], ffo=[], aim=0)


@st.composite
def st_motif(draw):
    """Short aligned op sequences that put the history into the regions the property talks about: stored data, then
    a change of exactly one part of the lineage, then a (fuzzy) read."""
    ti = draw(st.integers(0, 5))
    o = draw(st.sampled_from(RELEVANT_OPTS[ti]))
    how = draw(st.sampled_from(["set_context_config", "item", "new_context"]))
    kind = draw(st.sampled_from(["fuzzy_option", "fuzzy_type", "revisit", "near_miss", "fuzzy_kwargs"]))
    setv = dict(op="set_config", opt=o, val=draw(st_value(0)), mode="update")
    mk = dict(op=draw(st.sampled_from(["make", "get"])), t=ti)
    if kind == "fuzzy_option":
        return [mk, setv, dict(op="fuzzy", how=how, ff=[], ffo=[o], aim=0), dict(op="get", t=ti),
                dict(op="get2", t=ti), OFF, dict(op="get", t=ti)]
    if kind == "fuzzy_kwargs":
        return [mk, setv, dict(op="get", t=ti, kw=dict(ff=[], ffo=[o], aim=0)), dict(op="get", t=ti)]
    if kind == "near_miss":
        other = draw(st.sampled_from([x for x in range(10) if x != o]))
        return [mk, setv, dict(op="fuzzy", how=how, ff=[], ffo=[other], aim=0), dict(op="get", t=ti), OFF]
    if kind == "revisit":
        back = dict(op="set_config", opt=o, val=draw(st_value(0)), mode="update")
        return [back, mk, setv, dict(op="get", t=ti), back, dict(op="get", t=ti), dict(op="get2", t=ti)]
    si = draw(st.sampled_from(RELEVANT_SLOTS[ti]))
    change = dict(op="register", slot=si, change={draw(st.sampled_from(["version", "name"])): draw(st.integers(0, 3))},
                  via="new_context")
    if draw(st.booleans()):
        change = dict(op="bump", cls=si, ver=draw(st.integers(0, 3)))
    ui = {0: 0, 1: 1, 2: 2, 3: draw(st.sampled_from([3, 4])), 4: 5}[si]
    return [mk, change, dict(op="fuzzy", how=how, ff=[ui], ffo=[], aim=0), dict(op="get", t=ti), dict(op="get2", t=ti),
            OFF, dict(op="get", t=ti)]


@st.composite
def st_history(draw):
    parts = draw(st.lists(st.one_of(st_op().map(lambda o: [o]), st_op().map(lambda o: [o]), st_motif()),
                          min_size=2, max_size=14))
    ops = [o for p in parts for o in p][:30]
    return dict(init=draw(st_init()), ops=ops, seed=draw(st.integers(0, 10 ** 6)))


def state_from_init(init):
    """Model state described by an `init` descriptor (variants that would be rejected for clashing defaults are
    dropped)."""
    state = R.initial_state(child=init["child"])
    for si, change in init["changes"]:
        slot = R.SLOTS[si % len(R.SLOTS)]
        if slot not in state["reg"]:
            continue
        spec = R.variant_spec(state, slot, change)
        if R.default_conflict(state, spec):
            continue
        # at construction time the class simply IS the variant: replace it (children keep pointing at their base)
        state["classes"][state["reg"][slot]].update(spec)
    R.do_set_config(state, [(R.ALL_OPTIONS[oi % len(R.ALL_OPTIONS)], v) for oi, v in init["cfg"]])
    return state


# ----------------------------------------------------------------------------------------------------
# history
# ----------------------------------------------------------------------------------------------------
class History:
    def __init__(self, d):
        self.d = d
        self.rng = np.random.RandomState(d["seed"])
        self.dir = scratch_dir("h")
        self.fresh_dir = scratch_dir("f")
        self.state = state_from_init(d["init"])
        self.built = {}
        self.ctx = strax.Context(storage=[strax.DataDirectory(self.dir)],
                                 register=[make_class(self.state, ci, self.built) for ci in self.state["reg"].values()],
                                 config=build_config(self.state))
        self.stored = []  # dict(t=, dir=, lin=, rows=)
        self.dirs = set()
        self.seen_strict = {}
        self.seen_key = {}
        self.seen_loose = {}
        self.classes = set()
        self.last_opt = None  # option / slot of the latest lineage-affecting change (fuzzy ops may aim at them)
        self.last_slot = None
        self.step = -1
        self.op = None
        # non-triviality bookkeeping
        self.stored_something = False
        self.changed_after_store = False
        self.nt = False

    def close(self):
        shutil.rmtree(self.dir, ignore_errors=True)
        shutil.rmtree(self.fresh_dir, ignore_errors=True)

    # -- reporting ------------------------------------------------------------------------------------
    def fail(self, clause, t, detail):
        raise Violation(clause, f"t={t} step={self.step} op={json.dumps(self.op)} "
                        + (detail if isinstance(detail, str) else repr(detail)))

    # -- model helpers --------------------------------------------------------------------------------
    def types(self):
        return R.registered_types(self.state)

    def fuzzy(self, state=None):
        state = state or self.state
        return R.ff_slots(state, state["ff"]), list(state["ffo"])

    def closure_types(self, t):
        out = []
        for s in R.ancestors_slots(self.state, R.SLOT_OF[t]):
            out += R.PROVIDES[s]
        return out

    def stored_answer(self, state, t):
        """'yes' / 'no' / 'either' for is_stored(t) under `state` (fuzzy settings included)."""
        ffs, ffo = self.fuzzy(state)
        lin = R.lineage(state, t)
        ans = "no"
        for it in self.stored:
            if it["t"] != t:
                continue
            m = R.match3(it["lin"], lin, ffs, ffo)
            if m == "yes":
                return "yes"
            if m == "either":
                ans = "either"
        return ans

    def admissible(self, state, t):
        """Set of row tuples get_array(t) may return under `state`: stored data that must / may be accepted, else
        the current plugin applied to an admissible input."""
        ffs, ffo = self.fuzzy(state)
        lin = R.lineage(state, t)
        yes, either = [], []
        for it in self.stored:
            if it["t"] != t:
                continue
            m = R.match3(it["lin"], lin, ffs, ffo)
            if m == "yes":
                yes.append(it)
            elif m == "either":
                either.append(it)
        out = {tuple(it["rows"]) for it in yes + either}
        if not yes:
            spec = state["classes"][state["reg"][R.SLOT_OF[t]]]
            if spec["deps"]:
                for dep_rows in self.admissible(state, spec["deps"][0]):
                    out.add(tuple(R.compute_from(state, t, list(dep_rows))))
            else:
                out.add(tuple(R.compute_from(state, t, None)))
        return out

    # -- the per-step oracle --------------------------------------------------------------------------
    def listing(self):
        return {x for x in os.listdir(self.dir)}

    def check_state(self):
        state = self.state
        fresh = fresh_context(state, self.fresh_dir, self.rng)
        fuzzy_on = bool(state["ff"] or state["ffo"])
        keys = {}
        for t in self.types():
            lin = R.lineage(state, t)
            k_fresh = str(fresh.key_for(RUN, t))
            k_real = str(self.ctx.key_for(RUN, t))
            keys[t] = k_fresh
            if k_real != k_fresh:
                self.fail("key.differs_from_fresh_context", t, f"context: {k_real} fresh context: {k_fresh} "
                          f"lineage(context)={self.ctx.key_for(RUN, t).lineage} lineage(fresh)={fresh.key_for(RUN, t).lineage}")
            cs, cl = R.canon(lin, R.strict), R.canon(lin, R.loose)
            old = self.seen_strict.setdefault((t, cs), (k_real, self.step))
            if old[0] != k_real:
                self.fail("key.differs_for_identical_lineage", t, f"{old[0]} at step {old[1]}, now {k_real}: {cs}")
            old = self.seen_key.setdefault((t, k_real), (cl, self.step, cs))
            if old[0] != cl:
                self.fail("key.same_for_different_lineage", t, f"{k_real}: step {old[1]} {old[0]} now {cl}")
            if old[2] != cs:
                self.classes.add("ambiguous_pair_same_key")
            ks = self.seen_loose.setdefault((t, cl), set())
            ks.add(k_real)
            if len(ks) > 1:
                self.classes.add("ambiguous_pair_different_key")
        for t in self.types():
            lin = R.lineage(state, t)
            if fuzzy_on and not R.storable(lin):
                self.classes.add("skip_is_stored_unstorable_fuzzy")
                continue
            want = self.stored_answer(state, t)
            got = self.ctx.is_stored(RUN, t)
            if want == "yes" and not got:
                self.fail("is_stored.false_although_matching_data_exists", t, f"fuzzy={state['ff']},{state['ffo']} "
                          f"dirs={sorted(self.dirs)} key={keys[t]}")
            if want == "no" and got:
                self.fail("is_stored.true_without_matching_data", t, f"fuzzy={state['ff']},{state['ffo']} "
                          f"dirs={sorted(self.dirs)} key={keys[t]}")
            if want == "either":
                self.classes.add("is_stored_either")
            elif fuzzy_on and got and keys[t] not in self.dirs:
                self.classes.add("is_stored_by_fuzzy_match")
        ls = self.listing()
        if ls != self.dirs:
            self.fail("store.directory_changed_without_compute", "-", f"{sorted(ls)} vs {sorted(self.dirs)}")
        return keys

    # -- operations -----------------------------------------------------------------------------------
    def lineage_snapshot(self):
        return R.all_keys_canon(self.state, R.loose)

    def note_change(self, before):
        after = self.lineage_snapshot()
        changed = {t for t in after if before.get(t) != after[t]}
        if changed and self.stored_something:
            self.changed_after_store = True
        return changed

    def op_set_config(self, op):
        o = R.ALL_OPTIONS[op["opt"] % len(R.ALL_OPTIONS)]
        before = self.lineage_snapshot()
        R.do_set_config(self.state, [(o, op["val"])], op["mode"])
        self.ctx.set_config({o: R.build(op["val"])}, mode=op["mode"])
        changed = self.note_change(before)
        if changed:
            self.last_opt = o
        tracked = o in ("s_t", "a_t", "sh", "b_t", "c_t", "a_t_child", "ch_t")
        kind = "shared" if o == "sh" else "child" if o == "a_t_child" else "overridden_parent" if o == "a_t" else \
            "free" if o == "zz_free" else "tracked" if tracked else "untracked"
        self.classes.add(f"set_{kind}_{'changes_lineage' if changed else 'no_lineage_change'}")
        if op["val"]["k"] in ("np", "arr", "imm"):
            self.classes.add("value_numpyish")

    def op_register(self, op):
        state = self.state
        slot = R.SLOTS[op["slot"] % len(R.SLOTS)]
        spec = R.variant_spec(state, slot, op["change"])
        if R.default_conflict(state, spec):
            self.classes.add("skip_register_clashing_defaults")
            return
        before = self.lineage_snapshot()
        old = state["classes"][state["reg"][slot]] if slot in state["reg"] else None
        trial = R.copy_state(state)
        R.do_register(trial, spec)
        after = R.all_keys_canon(trial, R.loose)
        affected = {t for t in after if before.get(t) != after[t]}
        same_hash = old is not None and (old["version"], old["comp"]) == (spec["version"], spec["comp"])
        ci = R.do_register(state, spec)
        cls = make_class(state, ci, self.built)
        if op["via"] == "inplace":
            self.ctx.register(cls)
        else:
            self.ctx = self.ctx.new_context(register=[cls])
        if self.note_change(before):
            self.last_slot = slot
        what = sorted(k for k in op["change"] if k in ("name", "version", "default", "deps", "comp"))
        self.classes.add("register_" + "+".join(what) + ("_new" if old is None else ""))
        self.classes.add(f"register_{op['via']}_{'affects' if affected else 'neutral'}")
        if op["via"] == "inplace" and same_hash and affected:
            self.classes.add("register_inplace_same_version_affects")  # the shape of the (fixed) finding F4

    def op_bump(self, op):
        state = self.state
        ci = op["cls"] % len(state["classes"])
        spec = state["classes"][ci]
        ver = R.VERSIONS[op["ver"] % len(R.VERSIONS)]
        before = self.lineage_snapshot()
        registered = ci in state["reg"].values()
        is_base = any(s.get("base") == ci and cj in state["reg"].values() for cj, s in enumerate(state["classes"]))
        spec["version"] = ver
        make_class(state, ci, self.built).__version__ = ver
        changed = self.note_change(before)
        if changed and not registered and is_base:
            self.classes.add("bump_unregistered_parent")  # the shape of the (fixed) finding F0231
        if changed:
            self.last_slot = spec["slot"]
        self.classes.add("bump_" + ("changes_lineage" if changed else "no_lineage_change"))

    def op_new_context(self, op):
        items = [(R.ALL_OPTIONS[oi % len(R.ALL_OPTIONS)], v) for oi, v in op["cfg"]]
        before = self.lineage_snapshot()
        R.do_set_config(self.state, items)
        self.ctx = self.ctx.new_context(config={o: R.build(v) for o, v in items})
        self.note_change(before)
        self.classes.add("new_context")

    def resolve_fuzzy(self, f):
        types = self.types()
        ff = [types[i % len(types)] for i in f["ff"]]
        ffo = [R.ALL_OPTIONS[i % (len(R.ALL_OPTIONS) - 1)] for i in f["ffo"]]
        aim = f.get("aim", 0)
        if aim & 1 and self.last_opt and self.last_opt != "zz_free" and self.last_opt not in ffo:
            ffo.append(self.last_opt)
        if aim & 2 and self.last_slot and self.last_slot in self.state["reg"]:
            t = R.PROVIDES[self.last_slot][0]
            if t not in ff:
                ff.append(t)
        return ff, ffo

    def op_fuzzy(self, op):
        ff, ffo = self.resolve_fuzzy(op)
        self.state["ff"], self.state["ffo"] = ff, ffo
        if op["how"] == "set_context_config":
            self.ctx.set_context_config(dict(fuzzy_for=tuple(ff), fuzzy_for_options=tuple(ffo)))
        elif op["how"] == "item":  # the way docs/source/advanced/fuzzy_for.rst does it
            self.ctx.context_config["fuzzy_for"] = tuple(ff)
            self.ctx.context_config["fuzzy_for_options"] = tuple(ffo)
        else:
            self.ctx = self.ctx.new_context(fuzzy_for=tuple(ff), fuzzy_for_options=tuple(ffo))
        self.classes.add("fuzzy_" + ("off" if not (ff or ffo) else "for" if not ffo else "options" if not ff else "both"))

    def op_compute(self, op, keys):
        """make / get / get2."""
        state = self.state
        types = self.types()
        t = types[op["t"] % len(types)]
        call_state = state
        kw = {}
        if op.get("kw") is not None:
            ff, ffo = self.resolve_fuzzy(op["kw"])
            call_state = dict(state, ff=ff, ffo=ffo)
            kw = dict(fuzzy_for=tuple(call_state["ff"]), fuzzy_for_options=tuple(call_state["ffo"]))
        fuzzy_on = bool(call_state["ff"] or call_state["ffo"])
        if not all(R.storable(R.lineage(state, u)) for u in self.closure_types(t)):
            self.classes.add("skip_unstorable")
            return
        if fuzzy_on:
            want = self.admissible(call_state, t)
            if any(it["t"] in self.closure_types(t) and it["dir"] != keys[it["t"]] and R.lineage_has_tuple(it["lin"])
                   and R.match3(it["lin"], R.lineage(call_state, it["t"]), *self.fuzzy(call_state)) == "yes"
                   for it in self.stored):
                self.classes.add("fuzzy_match_with_tuple_valued_option")  # the shape of the (fixed) finding F0230
        else:
            want = {tuple(R.rows_of(state, t))}
            # data of an ambiguous twin (say stored under a_t=1, now a_t=1.0) has identical rows by construction
        if op["op"] == "make":
            self.ctx.make(RUN, t, **kw)
            got = None
        elif op["op"] == "get":
            got = _to_rows(self.ctx.get_array(RUN, t, progress_bar=False, **kw))
        else:
            c2 = strax.Context(storage=[strax.DataDirectory(self.dir)],
                               register=[make_class(state, ci, self.built) for ci in state["reg"].values()],
                               config=build_config(state, self.rng), **context_options(state))
            got = _to_rows(c2.get_array(RUN, t, progress_bar=False))
        if got is not None:
            if tuple(got) not in want:
                self.fail("get.rows_differ_from_reference" if not fuzzy_on else "get.rows_not_admissible_under_fuzzy",
                          t, f"got x={[r[2] for r in got]} want x in {[[r[2] for r in w] for w in sorted(want)]} "
                          f"fuzzy={call_state['ff']},{call_state['ffo']} dirs={sorted(self.dirs)}")
            if not fuzzy_on:
                fr = fresh_context(state, self.fresh_dir, self.rng)
                try:
                    ref = _to_rows(fr.get_array(RUN, t, progress_bar=False))
                finally:
                    shutil.rmtree(self.fresh_dir, ignore_errors=True)
                    os.makedirs(self.fresh_dir)
                if ref != got:
                    self.fail("get.differs_from_fresh_context_on_empty_storage", t,
                              f"got x={[r[2] for r in got]} fresh x={[r[2] for r in ref]}")
            if self.stored_something and self.changed_after_store:
                self.nt = True
        # what was written?
        ls = self.listing()
        new = ls - self.dirs
        gone = self.dirs - ls
        if gone:
            self.fail("store.directory_vanished", t, sorted(gone))
        if new and fuzzy_on:
            self.fail("fuzzy.data_written_under_fuzzy_matching", t, sorted(new))
        allowed = {keys[u]: u for u in self.closure_types(t)}
        for slot in R.ancestors_slots(state, R.SLOT_OF[t]):
            for u in R.PROVIDES[slot]:
                allowed[keys[u]] = u
        for name in sorted(new):
            if name.endswith("_temp"):
                self.fail("store.incomplete_directory_left", t, name)
            if name not in allowed:
                self.fail("store.written_under_non_current_key", t, f"{name} not in {sorted(allowed)}")
            u = allowed[name]
            self.stored.append(dict(t=u, dir=name, lin=R.lineage(state, u), rows=R.rows_of(state, u)))
            self.stored_something = True
        self.dirs = ls
        if not fuzzy_on and not new:
            self.classes.add("reused_stored_data")
        self.classes.add(op["op"] + ("_fuzzy" if fuzzy_on else "") + ("_computed" if new else "_nothing_written"))
        if op.get("kw") is not None:
            self.classes.add("get_with_fuzzy_kwargs")

    def run(self):
        keys = self.check_state()
        for i, op in enumerate(self.d["ops"]):
            self.step, self.op = i, op
            k = op["op"]
            if k == "set_config":
                self.op_set_config(op)
            elif k == "register":
                self.op_register(op)
            elif k == "bump":
                self.op_bump(op)
            elif k == "new_context":
                self.op_new_context(op)
            elif k == "fuzzy":
                self.op_fuzzy(op)
            else:
                self.op_compute(op, keys)
            keys = self.check_state()
        return dict(nt=self.nt, classes=sorted(self.classes))


def run_history(d):
    h = History(d)
    try:
        return h.run()
    finally:
        h.close()


# ----------------------------------------------------------------------------------------------------
# keys: one state, one mutation, brand-new contexts
# ----------------------------------------------------------------------------------------------------
@st.composite
def st_keys(draw):
    mut = draw(st.sampled_from(["set_config"] * 5 + ["register"] * 3 + ["bump"]))
    if mut == "set_config":
        m = dict(op=mut, opt=draw(st.integers(0, len(R.ALL_OPTIONS) - 1)), val=draw(st_value(0.4)))
    elif mut == "register":
        m = dict(op=mut, slot=draw(st.integers(0, len(R.SLOTS) - 1)), change=draw(st_change()))
    else:
        m = dict(op=mut, cls=draw(st.integers(0, 11)), ver=draw(st.integers(0, 3)))
    init = draw(st_init())
    init["cfg"] += draw(st.lists(st.tuples(st.integers(0, len(R.ALL_OPTIONS) - 1), st_value(0.4)).map(list),
                                 max_size=3))
    return dict(init=init, mut=m, seed=draw(st.integers(0, 10 ** 6)))


def run_keys(d):
    rng = np.random.RandomState(d["seed"])
    s0 = state_from_init(d["init"])
    s1 = R.copy_state(s0)
    m = d["mut"]
    classes = []
    if m["op"] == "set_config":
        o = R.ALL_OPTIONS[m["opt"] % len(R.ALL_OPTIONS)]
        R.do_set_config(s1, [(o, m["val"])])
        classes.append("set_" + ("free" if o == "zz_free" else "untracked" if o in ("s_u", "a_u", "c_u") else
                                 "shared" if o == "sh" else "child" if o == "a_t_child" else "tracked"))
        classes.append("value_" + m["val"]["k"])
    elif m["op"] == "register":
        slot = R.SLOTS[m["slot"] % len(R.SLOTS)]
        spec = R.variant_spec(s1, slot, m["change"])
        if R.default_conflict(s1, spec):
            return dict(nt=False, classes=["skip_register_clashing_defaults"])
        R.do_register(s1, spec)
        classes.append("register_" + "+".join(sorted(k for k in m["change"] if k in ("name", "version", "default",
                                                                                     "deps", "comp"))))
    else:
        ci = m["cls"] % len(s1["classes"])
        s1["classes"][ci]["version"] = R.VERSIONS[m["ver"] % len(R.VERSIONS)]
        classes.append("bump")
    path = scratch_dir("k")
    try:
        k0 = keys_of_state(s0, path)
        k0p = keys_of_state(s0, path, rng)
        k1 = keys_of_state(s1, path, rng)
    finally:
        shutil.rmtree(path, ignore_errors=True)
    n_changed = n_same = 0
    for t in R.registered_types(s0):
        if k0[t] != k0p[t]:
            raise Violation("keys.depend_on_insertion_order", f"t={t} {k0[t]} vs {k0p[t]} {d}")
        if t not in k1:
            continue
        l0, l1 = R.lineage(s0, t), R.lineage(s1, t)
        must_equal = R.canon(l0, R.strict) == R.canon(l1, R.strict)
        must_differ = R.canon(l0, R.loose) != R.canon(l1, R.loose)
        if must_equal and k0[t] != k1[t]:
            raise Violation("keys.changed_although_lineage_identical", f"t={t} {k0[t]} -> {k1[t]} {d}")
        if must_differ and k0[t] == k1[t]:
            raise Violation("keys.unchanged_although_lineage_differs", f"t={t} {k0[t]} "
                            f"{R.canon(l0, R.loose)} -> {R.canon(l1, R.loose)} {d}")
        if not must_equal and not must_differ:
            classes.append("ambiguous_pair_" + ("same_key" if k0[t] == k1[t] else "different_key"))
        n_changed += must_differ
        n_same += must_equal
    classes.append("changes_some_not_all" if n_changed and n_same else "changes_all" if n_changed else "changes_none")
    return dict(nt=bool(n_changed and n_same), classes=sorted(set(classes)))


# ----------------------------------------------------------------------------------------------------
# xproc: other interpreters, other hash seeds, other insertion orders
# ----------------------------------------------------------------------------------------------------
@st.composite
def st_xproc(draw):
    batch = []
    for _ in range(draw(st.integers(6, 12))):
        init = draw(st_init())
        init["cfg"] += draw(st.lists(st.tuples(st.integers(0, len(R.ALL_OPTIONS) - 1), st_value(0.4)).map(list),
                                     min_size=1, max_size=4))
        batch.append(init)
    return dict(batch=batch, seeds=[draw(st.integers(0, 10 ** 6)) for _ in range(3)])


def enum_xproc(tier, seed):
    """A case costs three interpreter start-ups, so there are only a few of them: with one Hypothesis example per
    shard every shard would get the same (simplest) example.  Instead all shards draw the same seeded sequence of
    examples from the strategy, drop the first (trivial) ones and share the rest."""
    from hypothesis import HealthCheck, Phase, given, settings
    from hypothesis import seed as hseed
    n = max(1, int({"quick": 8, "thorough": 64}[tier] * float(os.environ.get("VERIF_SCALE", "1"))))
    skip = 4
    out = []

    @hseed(int.from_bytes(f"C02-xproc-{seed}".encode(), "big") % (2 ** 60))
    @settings(max_examples=n + skip, deadline=None, database=None, phases=[Phase.generate], derandomize=False,
              suppress_health_check=list(HealthCheck))
    @given(st_xproc())
    def collect(d):
        out.append(d)

    collect()
    return out[skip:skip + n] if len(out) > skip else out


def child_main():
    """stdin: {"batch": [init...], "seed": int} -> stdout: @@KEYS@@ + json list of {type: key}."""
    import logging
    import warnings
    logging.disable(logging.CRITICAL)
    warnings.filterwarnings("ignore")
    req = json.loads(sys.stdin.read())
    rng = np.random.RandomState(req["seed"])
    path = scratch_dir("x")
    out = []
    try:
        for init in req["batch"]:
            out.append(keys_of_state(state_from_init(init), path, rng))
    finally:
        shutil.rmtree(path, ignore_errors=True)
    sys.stdout.write("\n@@KEYS@@" + json.dumps(dict(keys=out, hashseed=os.environ.get("PYTHONHASHSEED"),
                                                   strax=os.path.dirname(strax.__file__))))


def run_xproc(d):
    path = scratch_dir("x")
    try:
        parent = [keys_of_state(state_from_init(init), path) for init in d["batch"]]
    finally:
        shutil.rmtree(path, ignore_errors=True)
    procs = []
    for hs, seed in zip(["1", "2", "random"], d["seeds"]):
        env = dict(os.environ, PYTHONHASHSEED=hs, NUMBA_DISABLE_JIT="1")
        p = subprocess.Popen([sys.executable, "-m", "vf.props.c02", "--xproc-child"], env=env,
                             stdin=subprocess.PIPE, stdout=subprocess.PIPE, stderr=subprocess.PIPE, text=True,
                             cwd=os.path.dirname(os.path.dirname(os.path.dirname(os.path.abspath(__file__)))))
        procs.append((hs, p, json.dumps(dict(batch=d["batch"], seed=seed))))
    results = []
    for hs, p, req in procs:
        out, err = p.communicate(req, timeout=900)
        results.append((hs, p.returncode, out, err))
    for hs, rc, out, err in results:
        line = [x for x in out.splitlines() if x.startswith("@@KEYS@@")]
        if rc != 0 or not line:
            if "/strax/" in err:
                raise Violation("xproc.child_raised", f"PYTHONHASHSEED={hs}: {err[-1500:]}")
            raise RuntimeError(f"child interpreter failed rc={rc}: {err[-2000:]}")
        res = json.loads(line[0][len("@@KEYS@@"):])
        if os.path.realpath(res["strax"]) != os.path.realpath(os.path.dirname(strax.__file__)):
            raise RuntimeError(f"child imported another strax: {res['strax']}")
        for i, (a, b) in enumerate(zip(parent, res["keys"])):
            if a != b:
                diff = {t: (a[t], b[t]) for t in a if a[t] != b.get(t)}
                raise Violation("xproc.keys_differ_between_processes",
                                f"PYTHONHASHSEED={hs} state {i}: {diff} init={json.dumps(d['batch'][i])}")
    flat = json.dumps(d["batch"])
    classes = ["value_" + k for k in ("dict", "np", "arr", "imm", "tuple") if f'"k": "{k}"' in flat]
    nested = '"k": "dict", "v": [["' in flat
    return dict(nt=nested or any(c in classes for c in ("value_np", "value_arr", "value_imm")), classes=classes)


SUBCHECKS = [
    SubCheck("history", run_history, strategy=st_history, quick=320, thorough=12000, min_per_shard=5,
             sample_cap=6000, required_classes=("reused_stored_data", "is_stored_by_fuzzy_match")),
    SubCheck("keys", run_keys, strategy=st_keys, quick=2400, thorough=60000,
             required_classes=("changes_some_not_all",)),
    SubCheck("xproc", run_xproc, enumerate=enum_xproc, sample_cap=4000),
]

if __name__ == "__main__":
    if "--xproc-child" in sys.argv:
        child_main()
