"""C01 - results do not depend on chunking, processor, parallelism or what is stored.

Generated plugin graphs (vf/graphs.py) x independent chunkings per source x processor configuration x stored
subset x thread schedule (threaded runs execute under the controlled scheduler).  Oracle: the pure whole-run
reference evaluator `graphs.evaluate` + tiling / containment predicate + re-read of everything stored.
"""
import contextlib
import itertools
import os
import shutil

import numpy as np
from hypothesis import strategies as st

import strax
from vf import gen, graphs
from vf.core import Excluded, SubCheck, Violation
from vf.findings import signature
from vf.sched import policies
from vf.sched.scheduler import Scheduler

PROPERTY_ID = "C01"
LEVEL = "exploration"
RULE = (
    "A case = plugin graph from the grammar in vf/graphs.py (1-2 sources, up to 5 derived nodes: row-wise, "
    "same-kind merge, filter, multi-output, loop, overlap-window, down-chunking, exhaust) x rows per source x two "
    "independent law-abiding chunkings per source (one used to pre-store a generated subset of data types, one for "
    "the live request; empty and zero-duration chunks included) x configuration (processor, max_workers 1-3, "
    "lazy/eager, mailbox capacity, allow_rechunk, per-plugin rechunk_on_save / chunk_target_size_mb / save policy) "
    "x target x thread schedule (controlled scheduler), all drawn from Hypothesis. Non-trivial = >=2 plugins on the "
    "target's path and some source in >=2 chunks and (sources chunked differently or a stored subset or threaded). "
    "distinct = distinct descriptor hashes."
)
ASSUMPTIONS = [
    "plugin computations of the grammar are chunking-invariant by definition (row-local, containment-local, "
    "window-local inside the overlap plugin's validity margins, whole-run)",
    "mailbox capacity 1-4 only for graphs without a multi-dependency plugin that is downstream of a withholding "
    "plugin or whose dependencies share an upstream data type (diamond: zero-duration chunks / re-chunking by "
    "the aligner make one path run ahead, observed lag >= capacity is by design); otherwise capacity = total "
    "number of source chunks + 3 (always above the lag)",
    "threaded runs: preemption at synchronisation operations only; process pools are not exercised",
    "loop base rows and overlap-window inputs are disjoint (documented preconditions)",
    "numba-jitted helper functions execute as plain Python (NUMBA_DISABLE_JIT=1; same source code); their compiled "
    "behaviour is checked by C07, C17, C18, C19",
]
# Orchestration-level check: the numba-jitted helpers (split_array, diff, containment ...) run as plain Python -
# same source, no per-dtype compilation (each generated dtype would cost seconds of JIT time per worker).
# Their compiled behaviour is covered by C07 / C17-C19, which run with the JIT on.
ENV = {"NUMBA_DISABLE_JIT": "1"}
_COUNTER = itertools.count()


@st.composite
def st_case(draw, threaded=None, ops=graphs.ALL_OPS, multiprocess=False):
    spec = draw(graphs.st_graph(max_nodes=5, ops=ops, save_policies=True))
    unit = draw(st.sampled_from([1, 1, 7, 1000]))
    rows = {}
    for n in spec["nodes"]:
        if n["op"] == "source":
            rows[n["name"]] = draw(gen.st_rows(max_n=7, mode="overlap" if n.get("overlapping") else "disjoint"))
    t1 = max([b for r in rows.values() for _, b in r] + [1]) + draw(st.integers(0, 2))
    cutsA = {s: draw(gen.st_cuts(r, 0, t1, max_cuts=4)) for s, r in rows.items()}
    cutsB = {s: draw(gen.st_cuts(r, 0, t1, max_cuts=5)) for s, r in rows.items()}
    types = graphs.all_types(spec)
    prov = graphs.providers(spec)
    storable = [d for d in types if graphs.save_when_of(prov[d], d) > 0]
    stored = [d for d in storable if draw(st.integers(0, 2)) == 0]
    derived = [t for t in types if prov[t]["op"] != "source"]
    target = draw(st.sampled_from(derived if (derived and draw(st.integers(0, 9)) > 0) else types))
    proc = draw(st.sampled_from(["single_thread", "threaded_mailbox"])) if threaded is None else (
        "threaded_mailbox" if threaded else "single_thread")
    nchunks = sum(len(c) + 1 for c in cutsB.values()) + sum(len(c) + 1 for c in cutsA.values())
    if graphs.has_lag(spec) or graphs.has_diamond(spec):
        cap = nchunks + 3
        if not multiprocess and draw(st.integers(0, 2)) == 0:
            # the other documented way of giving a laggy graph enough room: a small context-wide capacity and the
            # Plugin.max_messages override on every plugin (only mailboxes of computed data types honour it, so nothing
            # may come from storage in this variant)
            cap = draw(st.integers(1, 3))
            stored = []
            for n in spec["nodes"]:
                n["max_messages"] = nchunks + 3
    else:
        cap = draw(st.sampled_from([1, 2, 3, 4, nchunks + 3]))
    cfg = dict(processor=proc, max_workers=draw(st.sampled_from([1, 1, 2, 3])), allow_lazy=draw(st.booleans()),
               max_messages=cap, allow_rechunk=draw(st.booleans()))
    if multiprocess:
        # strax's multiprocessing path: plugins with parallel='process' (and parallel plugins hanging off them) and
        # their non-rechunking savers are inlined into one job per chunk that crosses a process boundary
        # (simulated: pickled copy in, pickled result out, see vf.sched.scheduler.SimProcessExecutor)
        cfg.update(max_workers=draw(st.sampled_from([2, 2, 3])), allow_multiprocess=True)
        marked = False
        for n in spec["nodes"]:
            if n["op"] in ("overlap", "downchunk", "exhaust"):
                continue
            r = draw(st.integers(0, 5))
            if n["op"] == "source":
                if r <= 2:
                    n["parallel"], marked = "process", True
            elif r <= 1:
                n["parallel"], marked = "process", True
            elif r <= 4:
                n["parallel"] = True
        if not marked:
            spec["nodes"][0]["parallel"] = "process"
        # a saver is inlined (forked) when its plugin is, the output is saved by this request and is not
        # rechunked on save: make that frequent
        if draw(st.booleans()):
            stored = []
        for n in spec["nodes"]:
            if n["op"] == "downchunk":
                continue
            if draw(st.integers(0, 3)) > 0:
                ros = n.get("rechunk_on_save")
                n["rechunk_on_save"] = {o: False for o in ros} if isinstance(ros, dict) else False
            if draw(st.booleans()):
                sw = n.get("save_when")
                n["save_when"] = {o: 3 for o in sw} if isinstance(sw, dict) else 3
        return dict(spec=spec, unit=unit, rows=rows, t1=t1, cutsA=cutsA, cutsB=cutsB, stored=stored, target=target,
                    cfg=cfg, policy=draw(policies.st_policy()))
    for n in spec["nodes"]:
        if n["op"] not in ("source", "overlap", "downchunk", "exhaust") and draw(st.integers(0, 3)) == 0:
            n["parallel"] = True
    return dict(spec=spec, unit=unit, rows=rows, t1=t1, cutsA=cutsA, cutsB=cutsB, stored=stored, target=target,
                cfg=cfg, policy=draw(policies.st_policy()))


@st.composite
def st_plugin_capacity(draw):
    """A laggy diamond behind a multi-output plugin whose room comes from Plugin.max_messages only: source -> multi-output
    (x, y) -> overlap window on x -> loop joining the window output with y.  The context-wide capacity is 1-2; every
    plugin carries max_messages above the number of chunks, so the capacity exceeds the lag on every mailbox of a
    computed data type, first and non-first outputs alike."""
    w = [draw(st.integers(0, 2)), draw(st.integers(0, 3))]
    nodes = [
        dict(name="s0", op="source", overlapping=False, save_when=0, rechunk_on_save=False, target_rows=None),
        dict(name="n0", op="multi", deps=["s0"], outs=["n0x", "n0y"] if draw(st.booleans()) else ["n0a", "n0b"],
             save_when=0, rechunk_on_save=False, target_rows=None),
    ]
    first, second = nodes[1]["outs"]
    through, direct = (first, second) if draw(st.booleans()) else (second, first)
    nodes.append(dict(name="n1", op="overlap", deps=[through], w=w, scalar_window=False, save_when=0,
                      rechunk_on_save=False, target_rows=None))
    nodes.append(dict(name="n2", op="loop", deps=["n1", direct], save_when=0, rechunk_on_save=False,
                      target_rows=None))
    spec = dict(nodes=nodes)
    unit = draw(st.sampled_from([1, 7]))
    rows = {"s0": draw(gen.st_rows(max_n=9, mode="disjoint"))}
    t1 = max([b for _, b in rows["s0"]] + [1]) + draw(st.integers(0, 2))
    cuts = {"s0": draw(gen.st_cuts(rows["s0"], 0, t1, max_cuts=8))}
    nchunks = 2 * (len(cuts["s0"]) + 1)
    for n in nodes:
        n["max_messages"] = nchunks + 3
    cfg = dict(processor="threaded_mailbox", max_workers=draw(st.sampled_from([1, 1, 2])),
               allow_lazy=draw(st.booleans()), max_messages=draw(st.integers(1, 2)), allow_rechunk=False)
    return dict(spec=spec, unit=unit, rows=rows, t1=t1, cutsA=cuts, cutsB=cuts, stored=[], target="n2", cfg=cfg,
                policy=draw(policies.st_policy()))


def scratch_dir(tag):
    base = os.environ.get("VERIF_SCRATCH") or os.path.join(os.path.dirname(os.path.dirname(
        os.path.dirname(os.path.abspath(__file__)))), ".work", "tmp")
    d = os.path.join(base, f"{tag}-{os.getpid()}-{next(_COUNTER)}")
    os.makedirs(d, exist_ok=True)
    return d


def set_sources(rt, d, which, run_id="r"):
    for s, rows in d["rows"].items():
        rt["sources"][(run_id, s)] = graphs.source_chunks(s, rows, d[which][s], d["t1"], d["unit"])


def make_context(classes, storage, cfg=None, **kw):
    cfg = cfg or {}
    opts = dict(allow_multiprocess=False, timeout=60)
    for k in ("allow_lazy", "max_messages", "allow_rechunk", "allow_multiprocess"):
        if k in cfg:
            opts[k] = cfg[k]
    opts.update(kw)
    return strax.Context(storage=storage, register=classes, **opts)


def run_pipeline(ctx, target, cfg, policy, collect="iter", run_id="r", **kw):
    """Execute get_iter under the configuration; threaded runs go through the controlled scheduler.
    Returns (chunks, exception, scheduler report or None)."""

    def job():
        return list(ctx.get_iter(run_id, target, processor=cfg["processor"], max_workers=cfg.get("max_workers", 1),
                                 progress_bar=False, **kw))

    if cfg["processor"] == "threaded_mailbox":
        S = Scheduler(policies.make_policy(policy), max_steps=400000)
        with S.installed():
            res, exc = S.run(job)
        return res, exc, S
    try:
        return job(), None, None
    except Exception as e:  # noqa
        return None, e, None


@contextlib.contextmanager
def forked_saver_probe():
    """Counts chunk-metadata writes of savers that strax inlined into a (simulated) worker process."""
    from strax.storage.files import FileSaver
    orig = FileSaver._save_chunk_metadata
    probe = dict(forked=0)

    def _save_chunk_metadata(self, chunk_info):
        if self.is_forked:
            probe["forked"] += 1
        return orig(self, chunk_info)

    FileSaver._save_chunk_metadata = _save_chunk_metadata
    try:
        yield probe
    finally:
        FileSaver._save_chunk_metadata = orig


def check_sched(S, d):
    if S is None:
        return
    if S.deadlock:
        raise Violation("pipeline.deadlock", f"{S.deadlock} {d}")
    if S.timeouts_fired:
        raise Violation("pipeline.hang_virtual_timeout", f"{S.timeout_events} {d}")
    if S.step_limit_hit:
        raise Violation("pipeline.step_limit", f"{d}")
    if S.report()["leftover"]:
        raise Violation("pipeline.threads_left_alive", f"{S.report()['leftover']} {d}")


def check_result(chunks, ref_rows, t0, t1, d, what):
    if not chunks:
        raise Violation(what + ".no_chunks", repr(d))
    prev = t0
    got = []
    for c in chunks:
        if c.start != prev:
            raise Violation(what + ".not_contiguous", f"chunk starts at {c.start}, previous ended {prev} {d}")
        if c.end < c.start:
            raise Violation(what + ".negative_chunk", repr(d))
        prev = c.end
        rows = graphs.rows_of(c.data)
        for t, e, v in rows:
            if t < c.start or e > c.end:
                raise Violation(what + ".row_outside_chunk", f"row {(t, e)} in chunk {(c.start, c.end)} {d}")
        got += rows
    if prev != t1:
        raise Violation(what + ".does_not_reach_run_end", f"ends at {prev}, run ends {t1} {d}")
    if got != ref_rows:
        raise Violation(what + ".rows_differ", f"got {got[:12]}... expected {ref_rows[:12]}... {d}")


def stored_dirs(path):
    return sorted(x for x in os.listdir(path)) if os.path.isdir(path) else []


def run_case(d):
    spec, unit = d["spec"], d["unit"]
    token = f"c01-{os.getpid()}-{next(_COUNTER)}"
    rt = graphs.new_runtime(token)
    path = scratch_dir("c01")
    try:
        return _run_case(d, spec, unit, token, rt, path)
    finally:
        graphs.drop_runtime(token)
        shutil.rmtree(path, ignore_errors=True)


def prestore(d, classes, rt, path):
    """Phase A: pre-store the generated subset with another chunking (single-thread processor), then delete
    every directory that is not in the subset."""
    stored = list(d["stored"])
    if not stored:
        return False
    set_sources(rt, d, "cutsA")
    ctxA = make_context(classes, [strax.DataDirectory(path)])
    for t in stored:
        try:
            ctxA.make("r", t, save=(t,), processor="single_thread", progress_bar=False)
        except Exception as e:  # noqa
            raise Violation("prestore.raised:" + type(e).__name__, f"{e!r} making {t} {d}") from e
    keep = {str(ctxA.key_for("r", t)) for t in stored}
    for x in stored_dirs(path):
        if x not in keep:
            shutil.rmtree(os.path.join(path, x))
    return True


def _run_case(d, spec, unit, token, rt, path):
    classes = graphs.build_classes(spec, token, unit)
    ref = graphs.evaluate(spec, d["rows"], unit)
    prov = graphs.providers(spec)
    t1u = d["t1"] * unit
    cfg = d["cfg"]
    classes_hit = []
    steer(d, spec, prov)

    if prestore(d, classes, rt, path):
        classes_hit.append("stored_subset")

    # ---- phase B: the request under test
    set_sources(rt, d, "cutsB")
    rt["calls"].clear()
    ctxB = make_context(classes, [strax.DataDirectory(path)], cfg)
    from vf.sched.scheduler import SimProcessExecutor
    crossings0 = SimProcessExecutor.crossings
    with forked_saver_probe() as probe:
        chunks, exc, S = run_pipeline(ctxB, d["target"], cfg, d["policy"])
    if SimProcessExecutor.crossings > crossings0:
        classes_hit.append("inlined_job_crossed_process_boundary")
    if probe["forked"]:
        classes_hit.append("forked_saver")
    if exc is not None:
        raise Violation("request.raised:" + type(exc).__name__, f"{exc!r} {d}") from exc
    check_sched(S, d)
    check_result(chunks, ref[d["target"]], 0, t1u, d, "result")

    # ---- everything now reported stored must load completely and equal the reference
    ctxC = make_context(classes, [strax.DataDirectory(path)])
    n_stored = 0
    for t in graphs.all_types(spec):
        if ctxC.is_stored("r", t):
            n_stored += 1
            try:
                ch = list(ctxC.get_iter("r", t, processor="single_thread", progress_bar=False))
            except Exception as e:  # noqa
                raise Violation("reread.raised:" + type(e).__name__, f"{e!r} loading {t} {d}") from e
            check_result(ch, ref[t], 0, t1u, d, "reread")
    for x in stored_dirs(path):
        if x.endswith("_temp"):
            raise Violation("reread.temp_dir_left", f"{x} {d}")

    # ---- classification
    ops_on_path = {prov[a]["op"] for a in graphs.ancestors(spec, d["target"]) | {d["target"]}}
    nplug = len({prov[a]["name"] for a in graphs.ancestors(spec, d["target"]) | {d["target"]}})
    multi_chunk = any(len(c) >= 1 for c in d["cutsB"].values())
    differ = len({tuple(c) for c in d["cutsB"].values()}) > 1 or d["cutsA"] != d["cutsB"]
    threaded = cfg["processor"] == "threaded_mailbox"
    classes_hit += ["op:" + o for o in sorted(ops_on_path)]
    classes_hit.append(cfg["processor"])
    if threaded:
        classes_hit.append("lazy" if (cfg["allow_lazy"] and cfg["max_workers"] == 1) else "eager")
        classes_hit.append(f"workers{cfg['max_workers']}")
        if S.preemptions:
            classes_hit.append("preempted")
    if any(n.get("max_messages") is not None for n in spec["nodes"]):
        classes_hit.append("capacity_by_plugin_max_messages")
    if any(a == b for cs in d["cutsB"].values() for a, b in zip([0] + cs, cs + [d["t1"]])):
        classes_hit.append("zero_duration_chunk")
    if n_stored:
        classes_hit.append("saved_side_effect")
    stored = list(d["stored"])
    sib = [n for n in spec["nodes"] if n["op"] == "multi" and len(set(n["outs"]) & set(stored)) == 1]
    if sib:
        classes_hit.append("multi_output_sibling_stored")
    nt = nplug >= 2 and multi_chunk and (differ or bool(stored) or threaded)
    return dict(nt=nt, classes=classes_hit)


# ---- steering around recorded findings (narrow, counted) ---------------------------------------------
def steer(d, spec, prov):
    pass


SUBCHECKS = [
    SubCheck("single", run_case, strategy=lambda: st_case(threaded=False), quick=4000, thorough=120000),
    SubCheck("threaded", run_case, strategy=lambda: st_case(threaded=True), quick=3000, thorough=80000),
    SubCheck("plugin_capacity", run_case, strategy=st_plugin_capacity, quick=600, thorough=20000,
             required_classes=("capacity_by_plugin_max_messages",)),
    SubCheck("multiprocess", run_case, strategy=lambda: st_case(threaded=True, multiprocess=True), quick=1500,
             thorough=40000, required_classes=("inlined_job_crossed_process_boundary", "forked_saver")),
]
