"""C13 - production is limited by demand and buffer capacity (backpressure).

The consumer of get_iter takes k chunks and is then parked; all other threads run under the controlled
scheduler (virtual timeouts are not fired) until nothing can run any more (quiescence).  Oracle:
 (1) the number of source chunks computed at quiescence is below a bound B(graph, capacity, k) that does not
     depend on the run length, for runs of N and of 2N source chunks (N > B);
 (2) eager mode: no mailbox ever holds more than its capacity (inspected at every scheduler step);
 (3) lazy mode: whenever a mailbox advances its source iterator, a driving subscriber is waiting for a message
     number that is not in the box (or the mailbox is killed); the iterator of a multi-output plugin (which feeds its
     output mailboxes through strax's internal divider) only while a driving reader of one of its outputs does.
"""
import itertools
import os
import shutil

from hypothesis import strategies as st

import strax
import strax.mailbox
from vf import graphs
from vf.core import Inconclusive, SubCheck, Violation
from vf.findings import signature
from vf.props import c01
from vf.sched import policies
from vf.sched.scheduler import Scheduler

PROPERTY_ID = "C13"
LEVEL = "exploration"
ENV = {"NUMBA_DISABLE_JIT": "1"}
RULE = (
    "A case = plugin graph (vf/graphs.py without exhaust plugins: chains, diamonds, multi-output with discarded or "
    "saved side outputs, loop / overlap / down-chunking; with and without savers) x capacity 1-4 x lazy/eager x "
    "pause point k in 0..6 x schedule policy (random / PCT / targeted / 'starve one reader'), each executed for N and "
    "2N one-row source chunks under the controlled scheduler until quiescence. Non-trivial = >=2 stages and N > B. "
    "distinct = distinct descriptor hashes."
)
ASSUMPTIONS = [
    "B = k + capacity * (#mailboxes + #reader subscriptions) + 3 * #threads + withholding of overlap plugins "
    "(chunks inside 2*(w_left + w_right) + 2 grid units) - an over-estimate that only has to be independent of N",
    "exhaust plugins are excluded (they consume the whole run by definition)",
    "graphs in which a multi-dependency plugin reads one upstream mailbox directly and through a withholding plugin "
    "(diamond + overlap window / down-chunking) get capacity + (w_left + w_right + 3 per overlap plugin, 2 per "
    "down-chunking plugin): a constant of the graph above the lag those plugins introduce; should such a graph still "
    "not come to rest the case is inconclusive (capacity <= lag is outside the property), never a violation",
    "quiescence = no controlled thread runnable while the consumer is parked; timed waits do not fire",
    "preemption at synchronisation operations only",
]
_COUNTER = itertools.count()
OPS = ("rowwise", "merge", "filter", "multi", "loop", "overlap", "downchunk")


@st.composite
def st_case(draw):
    spec = draw(graphs.st_graph(max_nodes=4, ops=OPS, save_policies=True, allow_overlapping_sources=False))
    types = graphs.all_types(spec)
    prov = graphs.providers(spec)
    derived = [t for t in types if prov[t]["op"] != "source"]
    target = draw(st.sampled_from(derived or types))
    pol = draw(st.one_of(policies.st_policy(), st.builds(
        lambda v, i: dict(kind="starve", victim=v, inner=i),
        st.sampled_from(["build:", "save_", "read_", "divide_outputs", "discard_"]),
        st.builds(lambda s: dict(kind="random", seed=s, p_stay=0.6), st.integers(0, 10 ** 6)))))
    for n in spec["nodes"]:
        n["target_rows"] = None
        n["rechunk_on_save"] = draw(st.booleans()) if n["op"] != "downchunk" else False
    return dict(spec=spec, target=target, cap=draw(st.integers(1, 4)), lazy=draw(st.booleans()),
                k=draw(st.integers(0, 6)), policy=pol, storage=draw(st.booleans()))


class Watch:
    def __init__(self):
        self.boxes = []
        self.cap_violation = None
        self.fetch_violation = None
        self.fetches = 0
        self.cap = None  # configured capacity (set once the processor has been built)
        self.outputs_of = {}  # name of a multi-output plugin's temporary mailbox -> names of its output mailboxes

    def observer(self, sched, why):
        if self.cap_violation is not None:
            return
        for mb in self.boxes:
            # the capacity that counts is the one the user configured (context option max_messages; the grammar sets
            # no per-plugin override), not whatever value a mailbox object happens to carry
            cap = min(mb.max_messages, self.cap) if self.cap is not None else mb.max_messages
            if not mb.lazy and len(mb._mailbox) > cap:
                self.cap_violation = (mb.name, len(mb._mailbox), cap)


def run_once(d, n_chunks):
    spec = d["spec"]
    token = f"c13-{os.getpid()}-{next(_COUNTER)}"
    rt = graphs.new_runtime(token)
    path = c01.scratch_dir("c13")
    W = Watch()
    W.cap = d["cap"]
    orig_init = strax.Mailbox.__init__
    orig_add_sender = strax.Mailbox.add_sender

    def init(self, *a, **kw):
        orig_init(self, *a, **kw)
        W.boxes.append(self)

    def add_sender(self, source, name=None):
        mb = self

        def checked():
            it = iter(source)
            while True:
                if mb.lazy and not mb.killed and W.fetch_violation is None:
                    W.fetches += 1
                    have = {num for num, _ in mb._mailbox}
                    ok = any(drv and w is not None and w not in have
                             for drv, w in zip(mb._subscriber_can_drive, mb._subscriber_waiting_for))
                    if not ok:
                        W.fetch_violation = dict(mailbox=mb.name, box=sorted(have),
                                                 waiting=list(mb._subscriber_waiting_for),
                                                 drive=list(mb._subscriber_can_drive))
                    elif mb.name.endswith("_divide_outputs_mailbox"):
                        # The iterator of a multi-output plugin feeds its output mailboxes through strax's internal
                        # divider (the only subscriber of this temporary mailbox).  The plugin is the source of those
                        # mailboxes: it may be advanced only while a driving reader of one of its outputs waits for
                        # a message that is not there yet.
                        outs = W.outputs_of.get(mb.name, ())
                        fed = [b for b in W.boxes if b.name in outs]
                        if any(b.killed for b in fed):
                            fed = []  # the pipeline is being torn down
                        demand = any(drv and w is not None and w not in {num for num, _ in b._mailbox}
                                     for b in fed
                                     for drv, w in zip(b._subscriber_can_drive, b._subscriber_waiting_for))
                        if fed and not demand:
                            W.fetch_violation = dict(
                                mailbox=mb.name, multi_output_plugin_advanced_without_demand_on_any_output={
                                    b.name: dict(box=sorted(num for num, _ in b._mailbox),
                                                 waiting=list(b._subscriber_waiting_for),
                                                 drive=list(b._subscriber_can_drive)) for b in fed})
                try:
                    x = next(it)
                except StopIteration:
                    return
                try:
                    yield x
                except BaseException as e:  # noqa - _send_from throws into the source
                    it.throw(e) if hasattr(it, "throw") else None
                    raise

        return orig_add_sender(self, checked(), name=name)

    try:
        classes = graphs.build_classes(spec, token, 1)
        for n in spec["nodes"]:
            if n["op"] == "multi":
                W.outputs_of[f"P_{n['name']}_divide_outputs_mailbox"] = tuple(f"{o}_mailbox" for o in n["outs"])
        for n in spec["nodes"]:
            if n["op"] == "source":
                rows = [[2 * i, 2 * i + 1] for i in range(n_chunks)]
                cuts = [2 * i for i in range(1, n_chunks)]
                rt["sources"][("r", n["name"])] = graphs.source_chunks(n["name"], rows, cuts, 2 * n_chunks, 1)
        cfg = dict(allow_lazy=d["lazy"], max_messages=d["cap"], allow_rechunk=True)
        storage = [strax.DataDirectory(path)] if d["storage"] else []
        ctx = c01.make_context(classes, storage, cfg)
        S = Scheduler(policies.make_policy(d["policy"]), fire_timeouts=False, max_steps=600000)
        S.observer = W.observer
        strax.Mailbox.__init__ = init
        strax.Mailbox.add_sender = add_sender
        state = {}

        def job():
            it = ctx.get_iter("r", d["target"], processor="threaded_mailbox", max_workers=1, progress_bar=False)
            got = 0
            for _ in range(d["k"]):
                try:
                    next(it)
                    got += 1
                except StopIteration:
                    break
            state["got"] = got
            state["blocked"] = S.park()
            state["source_calls"] = {n["name"]: rt["calls"][n["name"]] for n in spec["nodes"] if n["op"] == "source"}
            state["threads"] = len(S.threads)
            state["subs"] = sum(len(mb._subscriber_can_drive) for mb in W.boxes)
            state["nboxes"] = len(W.boxes)
            return state

        with S.installed():
            _, exc = S.run(job)
        return state, exc, S, W
    finally:
        strax.Mailbox.__init__ = orig_init
        strax.Mailbox.add_sender = orig_add_sender
        graphs.drop_runtime(token)
        shutil.rmtree(path, ignore_errors=True)


def bound(d, state):
    w = 0
    for n in d["spec"]["nodes"]:
        if n["op"] == "overlap":
            w += 2 * (n["w"][0] + n["w"][1]) + 2
        if n["op"] == "downchunk":
            w += 2
    return d["k"] + d["cap"] * (state["nboxes"] + state["subs"]) + 3 * state["threads"] + w


def lag_allowance(spec):
    """Extra capacity for graphs in which a multi-dependency plugin reads one upstream mailbox both directly and
    through a withholding plugin (diamond + overlap / down-chunking): there the direct branch must buffer what the
    withholding branch holds back, and the property only promises progress when the capacity exceeds that lag.
    An overlap plugin withholds results ending within 2*w_right + 1 of the input end, i.e. w_right + 1 chunks of
    2 grid units (+1 for the early split); the allowance is a constant of the graph, never of the run length."""
    if not (graphs.has_lag(spec) and graphs.has_diamond(spec)):
        return 0
    extra = 0
    for n in spec["nodes"]:
        if n["op"] == "overlap":
            extra += n["w"][0] + n["w"][1] + 3
        if n["op"] == "downchunk":
            extra += 2
    return extra


def run_case(d):
    allowance = lag_allowance(d["spec"])
    if allowance:
        d = dict(d, cap=d["cap"] + allowance)
    # first run with a generous N to learn the structure sizes, then N and 2N with N > B
    state0, exc, S, W = run_once(d, 60)
    if exc is not None:
        raise Violation("pause.raised:" + type(exc).__name__, f"{exc!r} {d}") from exc
    if "source_calls" not in state0:
        if allowance:
            # capacity not provably above the lag of this shape: undecided, never a violation (termination with a
            # capacity certainly above the lag is what C01 / C06 check)
            raise Inconclusive(f"no quiescence on a diamond with a withholding plugin (capacity {d['cap']})")
        raise Violation("pause.no_quiescence", f"{S.report()} {d}")
    B = bound(d, state0)
    N = max(B + 20, 40)
    results = []
    for n_chunks in (N, 2 * N):
        state, exc, S, W = run_once(d, n_chunks)
        if exc is not None:
            raise Violation("pause.raised:" + type(exc).__name__, f"{exc!r} N={n_chunks} {d}") from exc
        if S.step_limit_hit:
            raise Violation("pause.no_quiescence_step_limit", f"N={n_chunks} {d}")
        if W.cap_violation:
            raise Violation("eager.mailbox_above_capacity", f"{W.cap_violation} N={n_chunks} {d}")
        if W.fetch_violation:
            raise Violation("lazy.source_advanced_without_demand", f"{W.fetch_violation} N={n_chunks} {d}")
        worst = max(state["source_calls"].values())
        if worst > B:
            raise Violation("backlog.exceeds_bound", f"source computed {state['source_calls']} chunks at quiescence, "
                            f"bound {B} (k={d['k']}, cap={d['cap']}) N={n_chunks} {d}")
        results.append((n_chunks, worst, W.fetches))
    cl = ["lazy" if d["lazy"] else "eager", f"cap{d['cap']}", "savers" if d["storage"] else "no_storage"]
    ops = {n["op"] for n in d["spec"]["nodes"]}
    cl += ["op:" + o for o in sorted(ops - {"source"})]
    if graphs.has_diamond(d["spec"]):
        cl.append("diamond")
    if allowance:
        cl.append("capacity_raised_by_lag_allowance")
    if d["policy"].get("kind") == "starve":
        cl.append("starve_policy")
    if results[0][1] != results[1][1]:
        cl.append("backlog_differs_N_vs_2N")
    if d["lazy"] and results[0][2]:
        cl.append("lazy_fetch_checked")
    return dict(nt=len(d["spec"]["nodes"]) >= 2 and N > B, classes=cl)


SUBCHECKS = [
    SubCheck("pause", run_case, strategy=st_case, quick=3000, thorough=80000),
]
