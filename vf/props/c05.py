"""C05 - a mailbox delivers every message exactly once, in order, to every subscriber.

The harness owns the schedule (vf/sched): strax.mailbox's threading primitives are replaced by a
cooperative scheduler; every interleaving choice is a generated value.  Oracle: validity predicate over the
observed history (each subscriber's list == messages sorted by number with futures resolved; termination;
no deadlock, no virtual timeout; capacity invariant inspected at every scheduler step).
"""
import itertools
from functools import partial

from hypothesis import strategies as st

import strax
import strax.mailbox
from vf.core import SubCheck, Violation
from vf.sched import policies
from vf.sched.explore import explore
from vf.sched.scheduler import CtlFuture, Event, Scheduler, Thread

PROPERTY_ID = "C05"
LEVEL = "exploration"
RULE = (
    "A case = mailbox configuration (1-3 subscribers with drive mask, 0-5 messages, capacity 1-4, lazy/eager, "
    "sender via add_sender or explicit out-of-order send with displacement < capacity, plain values or futures "
    "completed by 1-2 controlled worker threads in a generated order, optional divide_outputs stage feeding 2-3 "
    "mailboxes) x a schedule (random-with-persistence / PCT / explicit choice list / targeted switch-after-op), all "
    "drawn from Hypothesis; sub-check dfs enumerates small configurations and explores ALL schedules up to a "
    "preemption bound by stateless DFS. Non-trivial = >=2 messages and >=1 real preemption (a runnable thread was "
    "switched away from). distinct = distinct (configuration, schedule) descriptor hashes; for dfs the number of "
    "distinct schedule traces is reported as inner_evaluations."
)
ASSUMPTIONS = [
    "preemption happens at synchronisation operations only (lock acquire/release, condition wait, thread "
    "start/exit/join, future wait/completion); all mailbox state is accessed under the mailbox lock",
    "a virtual timeout (timed wait woken because nothing else can run) is a hang",
    "lazy mode: at least one driving subscriber per mailbox (per non-free-flowing output for divide_outputs)",
    "explicit message numbers: largest displacement < capacity",
]


def displacement(perm):
    return max([sum(1 for q in perm[:i] if q > k) for i, k in enumerate(perm)] + [0])


@st.composite
def st_config(draw, small=False):
    n = draw(st.integers(0, 3 if small else 5))
    cap = draw(st.integers(1, 2 if small else 4))
    lazy = draw(st.booleans())
    nsub = draw(st.integers(1, 2 if small else 3))
    drive = [draw(st.booleans()) for _ in range(nsub)]
    if lazy and not any(drive):
        drive[draw(st.integers(0, nsub - 1))] = True
    sender = draw(st.sampled_from(["iter", "iter", "explicit"]))
    perm = list(range(n))
    if sender == "explicit":
        perm = list(draw(st.permutations(list(range(n)))))
        # repair to satisfy displacement < cap by construction: bubble towards identity
        while displacement(perm) >= cap:
            for i in range(len(perm) - 1):
                if perm[i] > perm[i + 1]:
                    perm[i], perm[i + 1] = perm[i + 1], perm[i]
                    break
    futures = draw(st.booleans())
    fut_order = list(draw(st.permutations(list(range(n))))) if futures else []
    nworkers = draw(st.integers(1, 2)) if futures else 0
    lazy_cap = draw(st.booleans())  # lazy: apply the capacity after construction like the processor does
    return dict(n=n, cap=cap, lazy=lazy, drive=drive, sender=sender, perm=perm, futures=futures,
                fut_order=fut_order, nworkers=nworkers, lazy_cap=lazy_cap)


@st.composite
def st_case(draw):
    return dict(cfg=draw(st_config()), policy=draw(policies.st_policy()))


@st.composite
def st_wide_case(draw):
    """Many readers of different speeds on a deep buffer: 3-4 subscribers, 4-8 messages sent in order, capacity 4-6
    (or lazy mode) - the region where the clean-up of fully read messages removes a prefix of the buffer while a
    middle reader's next message is still inside it."""
    n = draw(st.integers(4, 8))
    lazy = draw(st.integers(0, 3)) == 0
    nsub = draw(st.integers(3, 4))
    drive = [draw(st.booleans()) for _ in range(nsub)]
    if lazy and not any(drive):
        drive[draw(st.integers(0, nsub - 1))] = True
    futures = draw(st.integers(0, 3)) == 0
    cfg = dict(n=n, cap=draw(st.integers(4, 6)), lazy=lazy, drive=drive, sender="iter", perm=list(range(n)),
               futures=futures, fut_order=list(draw(st.permutations(list(range(n))))) if futures else [],
               nworkers=draw(st.integers(1, 2)) if futures else 0, lazy_cap=draw(st.booleans()))
    # half of the schedules keep one reader (or the sender) back while anything else can run: readers then sit at
    # very different positions of the buffer
    pol = draw(st.one_of(policies.st_policy(), st.builds(
        lambda v, sd: dict(kind="starve", victim=v, inner=dict(kind="random", seed=sd, p_stay=0.5)),
        st.sampled_from(["read_0", "read_1", "read_2", "send"]), st.integers(0, 10 ** 6))))
    return dict(cfg=cfg, policy=pol)


@st.composite
def st_explicit_case(draw):
    """Explicitly numbered messages in a genuinely permuted order whose displacement stays just below the
    capacity (constructed by delaying single messages, never repaired towards the identity)."""
    n = draw(st.integers(3, 7))
    cap = draw(st.integers(2, 4))
    perm = list(range(n))
    for _ in range(draw(st.integers(1, 6))):
        i = draw(st.integers(0, n - 2))
        shift = draw(st.integers(1, cap))
        j = min(n - 1, i + shift)
        cand = perm[:i] + perm[i + 1: j + 1] + [perm[i]] + perm[j + 1:]
        if displacement(cand) < cap:
            perm = cand
    nsub = draw(st.integers(1, 3))
    futures = draw(st.integers(0, 3)) == 0
    cfg = dict(n=n, cap=cap, lazy=False, drive=[True] * nsub, sender="explicit", perm=perm, futures=futures,
               fut_order=list(draw(st.permutations(list(range(n))))) if futures else [],
               nworkers=draw(st.integers(1, 2)) if futures else 0, lazy_cap=True)
    return dict(cfg=cfg, policy=draw(policies.st_policy()))


@st.composite
def st_divide_case(draw):
    nout = draw(st.integers(2, 3))
    outs = []
    lazy = draw(st.booleans())
    for i in range(nout):
        nsub = draw(st.integers(1, 2))
        drive = [draw(st.booleans()) for _ in range(nsub)]
        free = draw(st.booleans())
        if lazy and not free and not any(drive):
            drive[0] = True
        outs.append(dict(drive=drive, free=free))
    return dict(n=draw(st.integers(0, 5)), cap=draw(st.integers(1, 4)), lazy=lazy, outs=outs,
                futures=draw(st.booleans()), policy=draw(policies.st_policy()))


class Harness:
    """Observations shared between the controlled threads of one execution."""

    def __init__(self):
        self.got = {}
        self.terminated = {}
        self.errors = []
        self.boxes = []
        self.cap_violation = None

    def observer(self, sched, why):
        for mb, cap in self.boxes:
            if len(mb._mailbox) > cap and self.cap_violation is None:
                self.cap_violation = (mb.name, len(mb._mailbox), cap, why)

    def reader(self, source, key):
        self.got[key] = []
        try:
            for x in source:
                self.got[key].append(x)
            self.terminated[key] = True
        except Exception as e:  # noqa
            self.errors.append((key, type(e).__name__, str(e)[:200]))


def msg(k, tag="m"):
    return [tag, k]


def run_mailbox(cfg, sched):
    H = Harness()
    sched.observer = H.observer
    n, cap, lazy = cfg["n"], cfg["cap"], cfg["lazy"]

    def job():
        mb = strax.Mailbox(name="mb", lazy=lazy, timeout=10, max_messages=cap)
        if lazy and cfg["lazy_cap"]:
            mb.max_messages = cap
        if not lazy or cfg["lazy_cap"]:
            H.boxes.append((mb, cap))
        futs = {}
        created = {k: Event() for k in range(n)}
        wake = [Event() for _ in range(cfg["nworkers"])]

        def announce(k):
            created[k].set()
            for e in wake:
                e.set()

        def make(k):
            if cfg["futures"]:
                f = CtlFuture()
                futs[k] = f
                return f
            return msg(k)

        def source():
            for k in range(n):
                m = make(k)
                if cfg["futures"]:
                    announce(k)  # a worker may complete it before or after it reaches the mailbox
                yield m

        def explicit_sender():
            try:
                for k in cfg["perm"]:
                    m = make(k)
                    if cfg["futures"]:
                        announce(k)
                    mb.send(m, msg_number=k)
                mb.close()
            except Exception as e:  # noqa
                H.errors.append(("sender", type(e).__name__, str(e)[:200]))

        def worker(w):
            # completes its share of the futures; among those that already exist it follows fut_order, and it
            # never waits for a *particular* future to be created (the mailbox may legitimately not ask the
            # source for it before an earlier one is completed) - it sleeps until any new one appears
            mine = [k for j, k in enumerate(cfg["fut_order"]) if j % cfg["nworkers"] == w]
            while mine:
                ready = [k for k in mine if created[k].is_set()]
                if not ready:
                    wake[w].clear()
                    wake[w].wait()
                    continue
                k = ready[0]
                mine.remove(k)
                futs[k].set_result(msg(k))

        extra = []
        for i, d in enumerate(cfg["drive"]):
            mb.add_reader(partial(H.reader, key=i), can_drive=d)
        if cfg["sender"] == "iter":
            mb.add_sender(source())
        else:
            extra.append(Thread(target=explicit_sender, name="explicit_sender"))
        for w in range(cfg["nworkers"]):
            extra.append(Thread(target=worker, args=(w,), name=f"futworker{w}"))
        mb.start()
        for t in extra:
            t.start()
        for t in extra:
            t.join(timeout=100)
        mb.cleanup()
        # invalid sends, made on purpose, must be rejected (and only those)
        try:
            mb.send(msg(99))
            H.errors.append(("post", "send-after-close-accepted", ""))
        except strax.MailBoxAlreadyClosed:
            pass
        return mb

    with sched.installed():
        mb, exc = sched.run(job)
    return H, exc, sched


def verdict(H, exc, S, expected, desc, need_terminate=True):
    rep = S.report()
    if exc is not None:
        raise Violation("mailbox.caller_exception:" + type(exc).__name__, f"{exc!r} {rep} {desc}")
    if S.deadlock:
        raise Violation("mailbox.deadlock", f"{S.deadlock} {desc}")
    if S.timeouts_fired:
        raise Violation("mailbox.hang_virtual_timeout", f"{S.timeout_events} {desc}")
    if S.step_limit_hit:
        raise Violation("mailbox.livelock_step_limit", f"{desc}")
    if H.errors:
        raise Violation("mailbox.thread_exception:" + H.errors[0][1], f"{H.errors} {desc}")
    if rep["leftover"]:
        raise Violation("mailbox.threads_left_alive", f"{rep['leftover']} {desc}")
    dead = [(t.name, repr(t.exc)) for t in S.threads if t.exc is not None]
    if dead:
        raise Violation("mailbox.thread_died:" + type(S.threads[0].exc).__name__, f"{dead} {desc}")
    for key, exp in expected.items():
        got = H.got.get(key)
        if got != exp:
            raise Violation("mailbox.wrong_delivery", f"subscriber {key} got {got} expected {exp} {desc}")
        if need_terminate and not H.terminated.get(key):
            raise Violation("mailbox.subscriber_not_terminated", f"{key} {desc}")
    if H.cap_violation:
        raise Violation("mailbox.capacity_exceeded", f"{H.cap_violation} {desc}")


def classes_of(cfg, S):
    cl = ["lazy" if cfg["lazy"] else "eager"]
    if cfg.get("futures"):
        cl.append("futures")
    if cfg.get("sender") == "explicit" and cfg["perm"] != sorted(cfg["perm"]):
        cl.append("out_of_order_numbers")
    if S.preemptions:
        cl.append("preempted")
    for why, c in S.switch_log.items():
        cl.append("preempt@" + why)
    if "drive" in cfg and not all(cfg["drive"]):
        cl.append("non_driving_subscriber")
    return cl


def run_case(d):
    cfg = d["cfg"]
    S = Scheduler(policies.make_policy(d["policy"]), max_steps=200000)
    H, exc, S = run_mailbox(cfg, S)
    expected = {i: [msg(k) for k in range(cfg["n"])] for i in range(len(cfg["drive"]))}
    verdict(H, exc, S, expected, d)
    return dict(nt=cfg["n"] >= 2 and S.preemptions >= 1, classes=classes_of(cfg, S))


# ---- divide_outputs ---------------------------------------------------------------------------------
def run_divide(d):
    S = Scheduler(policies.make_policy(d["policy"]), max_steps=300000)
    H = Harness()
    S.observer = H.observer
    n, cap, lazy = d["n"], d["cap"], d["lazy"]
    names = [f"o{i}" for i in range(len(d["outs"]))]

    def job():
        boxes = {}
        for nm in names + ["src"]:
            mb = strax.Mailbox(name=nm, lazy=lazy, timeout=10, max_messages=cap)
            mb.max_messages = cap  # as ThreadedMailboxProcessor does, lazy or not
            boxes[nm] = mb
            H.boxes.append((mb, cap))
        futs = []

        def source():
            for k in range(n):
                if d["futures"]:
                    f = CtlFuture()
                    f.set_result({nm: msg(k, nm) for nm in names})
                    yield f
                else:
                    yield {nm: msg(k, nm) for nm in names}

        boxes["src"].add_sender(source())
        free = tuple(nm for nm, o in zip(names, d["outs"]) if o["free"])
        boxes["src"].add_reader(partial(strax.divide_outputs, lazy=lazy,
                                        mailboxes={nm: boxes[nm] for nm in names},
                                        flow_freely=free, outputs=tuple(names)))
        for nm, o in zip(names, d["outs"]):
            for j, drv in enumerate(o["drive"]):
                boxes[nm].add_reader(partial(H.reader, key=f"{nm}.{j}"), can_drive=drv)
        for mb in boxes.values():
            mb.start()
        for mb in boxes.values():
            mb.cleanup()

    with S.installed():
        _, exc = S.run(job)
    expected = {f"{nm}.{j}": [msg(k, nm) for k in range(n)]
                for nm, o in zip(names, d["outs"]) for j in range(len(o["drive"]))}
    verdict(H, exc, S, expected, d)
    cl = ["lazy" if lazy else "eager", f"outs{len(names)}"]
    if any(o["free"] for o in d["outs"]):
        cl.append("flow_freely")
    if S.preemptions:
        cl.append("preempted")
    return dict(nt=n >= 2 and S.preemptions >= 1, classes=cl)


# ---- bounded-exhaustive DFS --------------------------------------------------------------------------
def enum_dfs(tier, seed):
    """Small configurations; every one is explored under all schedules up to the preemption bound."""
    for n, cap, lazy, nsub, futures in itertools.product((1, 2, 3), (1, 2), (False, True), (1, 2), (False, True)):
        if tier == "quick" and (n == 3 or (futures and nsub == 2)):
            continue
        drives = [[True] * nsub]
        if nsub == 2:
            drives.append([True, False])
        for drive in drives:
            senders = ["iter"]
            if not lazy and n >= 2 and cap >= 2:
                senders.append("explicit")
            for sender in senders:
                perm = list(range(n))
                if sender == "explicit":
                    perm[0], perm[1] = perm[1], perm[0]
                cfg = dict(n=n, cap=cap, lazy=lazy, drive=drive, sender=sender, perm=perm, futures=futures,
                           fut_order=list(reversed(range(n))) if futures else [], nworkers=1 if futures else 0,
                           lazy_cap=True)
                bound = 2 if (n <= 2 and nsub == 1 and not futures) else 1
                if tier == "thorough" and n <= 2:
                    bound = 2
                yield dict(cfg=cfg, bound=bound, max_schedules=1200 if tier == "quick" else 120000)


def run_dfs(d):
    cfg = d["cfg"]
    expected = {i: [msg(k) for k in range(cfg["n"])] for i in range(len(cfg["drive"]))}
    count = 0
    pre = 0

    def one(S):
        S.max_steps = 100000
        return run_mailbox(cfg, S)

    gen = explore(one, preemption_bound=d["bound"], max_schedules=d["max_schedules"])
    complete = None
    while True:
        try:
            trace, S, (H, exc, _) = next(gen)
        except StopIteration as e:
            complete = e.value
            break
        count += 1
        pre += 1 if S.preemptions else 0
        verdict(H, exc, S, expected, dict(cfg=cfg, policy=dict(kind="trace", trace=trace)))
    cl = ["lazy" if cfg["lazy"] else "eager", f"bound{d['bound']}", "complete" if complete else "capped"]
    return dict(nt=True, classes=cl, inner_evaluations=count, inner_nontrivial=pre)


SUBCHECKS = [
    SubCheck("random", run_case, strategy=st_case, quick=2500, thorough=120000),
    SubCheck("explicit", run_case, strategy=st_explicit_case, quick=1200, thorough=60000),
    SubCheck("wide", run_case, strategy=st_wide_case, quick=5000, thorough=120000),
    SubCheck("divide", run_divide, strategy=st_divide_case, quick=1000, thorough=40000),
    SubCheck("dfs", run_dfs, enumerate=enum_dfs),
]
