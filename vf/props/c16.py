"""C16 - copying, rechunking, recompressing and per-chunk merging preserve the data.

A generated stored layout (structured dtype with extra fields, rows, law-abiding chunking, compressor, save-time
rechunking, processor) is written through real source / row-wise plugins into a scratch DataDirectory.  Then one
operation is applied:

  copy          Context.copy_to_frontend (target compressor, rechunk, rechunk_to_mb, frontend index / all frontends)
  rechunker     stand-alone strax.rechunker, directly or through strax/scripts/rechunker.py (compressor x target size
                x serial / thread pool x replace on/off x destination given as parent / full path / temp dir)
  rechunker_process   the same with parallel='process' on a fixed grid (thorough tier only)
  load_rechunk  a plugin with rechunk_on_load=True reads the stored data (Context -> StorageBackend.loader(rechunk=True))
  perchunk      every chunk of the dependency is assigned to one of several consecutive jobs, each job is
                make(chunk_number={dep: job}), then merge_per_chunk_storage (drawn groupings)
  perchunk_exh  all 2**(n-1) groupings of fixed n-chunk layouts

Oracles (none of them uses strax to decide):
 * reference rows come from the descriptor (the row-wise plugin computations are re-done on the whole-run array);
 * files are decoded with the compression libraries directly (vf.props.c03.decode_file) and every metadata clause
   is recomputed from the decoded rows / os.listdir / os.path.getsize (read_dir = validity predicate);
 * admissible(s) = "no row has time < s < endtime" for boundaries the rechunker introduced;
 * byte snapshots of directories (names + sha1 of every file) for "the source is left intact".
"""
import contextlib
import hashlib
import itertools
import json
import os
import shutil
import sys
from ast import literal_eval

import numpy as np
from hypothesis import strategies as st

import strax
from vf import gen
from vf.core import SubCheck, Violation
from vf.props import c03

PROPERTY_ID = "C16"
LEVEL = "exploration"
RULE = (
    "A case = stored layout (structured dtype: time fields in either endtime encoding + 0-4 free-form extra scalar / "
    "array-valued / titled fields before or after them, random payload bytes; 0-24 rows on an integer grid scaled by "
    "a unit in {1,7,500,1000,1001,2.5e8} and shifted; admissible cuts incl. duplicates = zero-duration chunks and "
    "cuts in row-free regions = empty chunks; source compressor; rechunk-on-save with a 1-4 row target; data type "
    "operated on = the source itself or a row-wise filtered derivative; processor single_thread / threaded_mailbox "
    "with 1-3 workers) x one operation with its parameters (copy: target compressor or None, rechunk, rechunk_to_mb "
    "as a 1-8 row target or the default, 2-3 frontends with the data in any of them, explicit target index or all, "
    "a read-only bystander; rechunker: compressor or None, target size or None, rechunk on/off, parallel "
    "False/True/'thread' (sub-check rechunker) or 'process' (rechunker_process, thorough only), max_workers, "
    "replace on/off with destination None / parent directory / full key path, call through the command-line "
    "script; load_rechunk: source size 1-6 rows, read directly and through a dependent plugin; perchunk: a "
    "composition of the dependency's chunk numbers into consecutive jobs run in a drawn order, target one or two "
    "plugin levels above the dependency, optional partial merge of a sub-range of jobs first, merge with "
    "rechunk / rechunk_to_mb / target frontend / chunk_number_group given or defaulted), all drawn from Hypothesis "
    "strategies; perchunk_exh enumerates ALL compositions for fixed layouts of 1-5 (quick) / 1-7 (thorough) "
    "chunks; rechunker_process enumerates layouts x compressor x target x destination mode.  Non-trivial = the "
    "data has >=3 chunks (before or after the operation) and (the compressor changed, or the chunk layout changed, "
    "or there are >=2 per-chunk jobs).  distinct = distinct descriptor hashes."
)
ASSUMPTIONS = [
    "stored data obeys the laws of chunking: rows sorted by time, positive duration, wholly inside one chunk, chunks "
    "contiguous, zero-duration chunks empty; a run has positive duration",
    "dtypes are packed, carry time+endtime or time+length+dt; bool fields are scalar with 0/1 payloads",
    "numba-jitted helpers (strax.diff, endtime, split_array) execute as plain Python (NUMBA_DISABLE_JIT=1; same "
    "source code, no per-dtype compilation for the free-form dtypes); their compiled behaviour is checked by "
    "C03 / C07 / C17",
    "rechunk targets are >= one row (smaller targets are documented to raise 'Target size is too small')",
    "only DataDirectory / FileSytemBackend frontends; real threads and real process pools (schedules not "
    "controlled); strax.rechunker is called with its progress bar on and stderr discarded (progress_bar is not "
    "in the property's quantifier; progress_bar=False crashes on a disabled tqdm, recorded as a harness note)",
    "the rechunker's destination is never the source's own parent directory (that asks the saver to overwrite the "
    "directory it is reading from)",
    "per-chunk jobs form a partition of the dependency's chunk numbers into runs of consecutive numbers; a partial "
    "merge takes a consecutive sub-range of jobs; the per-chunked dependency is stored without rechunk_on_load",
    "merge_per_chunk_storage(target_compressor=...) is not part of the statement: the compressor named in the merged "
    "metadata must decode the files, whichever it is (it is counted in class merge_target_compressor_ignored)",
]
ENV = {"NUMBA_DISABLE_JIT": "1"}

RUN = "r"
COMPRESSORS = ["blosc", "zstd", "lz4", "bz2"]
UNITS = [1, 7, 500, 1000, 1000, 1001, 1001, 250_000_000]
PROCS = ["single_thread", "threaded_mailbox"]
_COUNTER = itertools.count()

# a daemon monitor thread per process would otherwise be started by the first progress bar
strax.utils.tqdm.monitor_interval = 0


def check(cond, clause, detail=""):
    if not cond:
        raise Violation(clause, detail if isinstance(detail, str) else repr(detail))


def must(clause, d, fn, *a, **k):
    """Call strax where the property says the operation succeeds."""
    try:
        return fn(*a, **k)
    except Violation:
        raise
    except Exception as e:  # noqa
        raise Violation(f"{clause}:{type(e).__name__}", f"{e!r} {d}") from e


def scratch(tag):
    base = os.environ.get("VERIF_SCRATCH") or os.path.join(os.path.dirname(os.path.dirname(os.path.dirname(
        os.path.abspath(__file__)))), ".work", "tmp")
    p = os.path.join(base, f"c16-{tag}-{os.getpid()}-{next(_COUNTER)}")
    os.makedirs(p)
    return p


@contextlib.contextmanager
def quiet():
    """strax prints progress ('Rechunking ...', 'Removing data in ...') and draws tqdm bars on stderr."""
    if os.environ.get("VERIF_DEBUG"):
        yield
        return
    with open(os.devnull, "w") as dn, contextlib.redirect_stdout(dn), contextlib.redirect_stderr(dn):
        yield


# ------------------------------------------------------------------------------------------------
# layout: descriptor -> arrays, plugins, reference rows
# ------------------------------------------------------------------------------------------------
KEEPS = [[1, 1], [1, 1], [2, 0], [2, 1], [3, 0], [3, 2], [1, 0]]  # (mod, rem): keep row iff (time // unit) % mod != rem


@st.composite
def st_cuts(draw, rows, t1):
    """Sorted multiset of admissible cut times (duplicates and cuts at the run edges give zero-duration chunks, cuts
    in row-free regions give empty chunks); >= 2 cuts favoured so that most layouts have >= 3 chunks."""
    adm = gen.admissible_times(rows, 0, t1)
    shape = draw(st.sampled_from(["few", "few", "many", "many", "all", "none", "dup", "ends"]))
    if shape == "none":
        return []
    if shape == "all":
        return list(adm)
    lo, hi = (3, 7) if shape == "many" else (1, 3)
    cuts = draw(st.lists(st.sampled_from(adm), min_size=lo, max_size=hi))
    if shape == "dup":
        cuts.append(cuts[draw(st.integers(0, len(cuts) - 1))])
    if shape == "ends":
        cuts += draw(st.sampled_from([[0], [t1], [0, t1], [t1, t1]]))
    return sorted(cuts)


@st.composite
def st_layout(draw, max_rows=(5, 12, 12, 24), ros=(0, 0, 0, 1, 2, 4), few_cuts=False):
    fields = draw(c03.st_fields())
    nlead = draw(st.integers(0, len(fields))) if draw(st.booleans()) else 0
    rows = draw(gen.st_rows(max_n=draw(st.sampled_from(list(max_rows))),
                            mode=draw(st.sampled_from(["disjoint", "disjoint", "any"]))))
    min_n = draw(st.sampled_from([0, 1, 3, 4, 6, 9]))
    if len(rows) < min_n:  # pad with disjoint rows separated by drawn gaps (construction, not rejection)
        t = rows[-1][1] if rows else 0
        for _ in range(min_n - len(rows)):
            a = t + draw(st.integers(0, 3))
            t = a + draw(st.integers(1, 3))
            rows.append([a, t])
    t1 = max([b for _, b in rows] + [0]) + draw(st.integers(0, 2))
    t1 = max(t1, 1)
    cuts = draw(gen.st_cuts(rows, 0, t1, max_cuts=2)) if few_cuts else draw(st_cuts(rows, t1))
    return dict(
        enc=draw(st.sampled_from(["endtime", "endtime", "dt"])),
        time_titles=draw(st.sampled_from([True, True, False])),
        fields=fields, nlead=nlead,
        unit=draw(st.sampled_from(UNITS)), dtk=draw(st.integers(0, 3)), shift=draw(st.sampled_from([0, 0, 1, 3])),
        rows=rows, t1=t1, cuts=cuts,
        seed=draw(st.integers(0, 2 ** 31 - 1)),
        comp=draw(st.sampled_from(COMPRESSORS)),
        ros=draw(st.sampled_from(list(ros))),
        proc=draw(st.sampled_from(PROCS)), workers=draw(st.sampled_from([1, 2, 3])),
        keep=draw(st.sampled_from(KEEPS)), keep2=draw(st.sampled_from(KEEPS[:5])),
        a_ros=draw(st.sampled_from([0, 0, 1, 3])), a_comp=draw(st.sampled_from(COMPRESSORS)),
    )


def derived_dtype(dt):
    return np.dtype(dt.descr + [("y", "<i8")])


def rowwise(x, out_dtype, unit, keep, mul, add):
    """The computation of the derived plugins - also THE reference when applied to the whole-run array."""
    mod, rem = keep
    src = x[((x["time"] // unit) % mod) != rem]
    out = np.zeros(len(src), out_dtype)
    for n in src.dtype.names:
        out[n] = src[n]
    base = src["y"] if "y" in src.dtype.names else src["time"]
    out["y"] = base * mul + add
    return out


class Layout:
    def __init__(self, L):
        self.L = L
        self.u = u = L["unit"]
        self.dtype = c03.build_dtype(L)
        self.data = c03.build_data(L, self.dtype)
        sh = L["shift"] * u
        self.t0, self.t1 = sh, L["t1"] * u + sh
        self.srows = [(a * u + sh, b * u + sh) for a, b in L["rows"]]
        self.written = []  # (start, end, first row, n rows)
        for a, b, idx in gen.partition(L["rows"], 0, L["t1"], L["cuts"]):
            self.written.append((a * u + sh, b * u + sh, idx[0] if idx else 0, len(idx)))
        self.dt_a = derived_dtype(self.dtype)
        self.dtypes = dict(ss=self.dtype, aa=self.dt_a, bb=self.dt_a)
        aa = rowwise(self.data, self.dt_a, u, L["keep"], 3, 1)
        bb = rowwise(aa, self.dt_a, u, L["keep2"], 2, 7)
        self.ref = dict(ss=self.data, aa=aa, bb=bb)

    def ref_for_chunks(self, target, numbers):
        """Reference rows of `target` restricted to the dependency's written chunks `numbers`."""
        parts = [self.data[i0:i0 + n] for k, (s, e, i0, n) in enumerate(self.written) if k in set(numbers)]
        x = np.concatenate(parts) if parts else self.data[:0]
        if target == "ss":
            return x
        aa = rowwise(x, self.dt_a, self.u, self.L["keep"], 3, 1)
        return aa if target == "aa" else rowwise(aa, self.dt_a, self.u, self.L["keep2"], 2, 7)

    def rows_of(self, target):
        x = self.ref[target]
        return list(zip(x["time"].tolist(), c03.ref_endtime(x).tolist()))

    def plugins(self, rol=0, src_ros=None):
        L, u = self.L, self.u
        chunks = [(s, e, self.data[i0:i0 + n]) for s, e, i0, n in self.written]

        def is_ready(self_, chunk_i):
            return chunk_i < len(chunks)

        def source_finished(self_):
            return True

        def compute_src(self_, chunk_i):
            a, b, x = chunks[chunk_i]
            return self_.chunk(start=a, end=b, data=x.copy())

        ros = L["ros"] if src_ros is None else src_ros
        src = dict(provides="ss", depends_on=(), dtype=self.dtype, data_kind="k", __version__="0",
                   compressor=L["comp"], rechunk_on_save=bool(ros), rechunk_on_load=bool(rol),
                   is_ready=is_ready, source_finished=source_finished, compute=compute_src)
        if ros:
            src["chunk_target_size_mb"] = (ros + 0.5) * self.dtype.itemsize / 1e6
        if rol:
            src["chunk_source_size_mb"] = (rol + 0.5) * self.dtype.itemsize / 1e6
        dt_a = self.dt_a

        def compute_a(self_, k):
            return rowwise(k, dt_a, u, L["keep"], 3, 1)

        def compute_b(self_, k):
            return rowwise(k, dt_a, u, L["keep2"], 2, 7)

        a = dict(provides="aa", depends_on=("ss",), dtype=dt_a, data_kind="k", __version__="0",
                 compressor=L["a_comp"], rechunk_on_save=bool(L["a_ros"]), compute=compute_a)
        if L["a_ros"]:
            a["chunk_target_size_mb"] = (L["a_ros"] + 0.5) * dt_a.itemsize / 1e6
        b = dict(provides="bb", depends_on=("aa",), dtype=dt_a, data_kind="k", __version__="0",
                 compressor=L["comp"], rechunk_on_save=False, compute=compute_b)
        return [type("Src", (strax.Plugin,), src), type("PlugA", (strax.Plugin,), a),
                type("PlugB", (strax.Plugin,), b)]


def context(dirs, plugins, readonly=(), **kw):
    storage = [strax.DataDirectory(p, readonly=(i in readonly)) for i, p in enumerate(dirs)]
    return strax.Context(storage=storage, register=plugins, allow_multiprocess=False, timeout=300, **kw)


def make(ctx, L, target, d, clause="setup.make_raised", **kw):
    must(clause, d, ctx.make, RUN, target, processor=L["proc"], max_workers=L["workers"], **kw)


# ------------------------------------------------------------------------------------------------
# oracles
# ------------------------------------------------------------------------------------------------
def snapshot(path):
    """{relative file name: sha1 of its bytes} + the set of directories: 'byte-identical'."""
    out = {}
    for root, dirs, files in os.walk(path):
        dirs.sort()
        rel = os.path.relpath(root, path)
        out[rel + "/"] = None
        for fn in files:
            with open(os.path.join(root, fn), "rb") as f:
                out[os.path.join(rel, fn)] = hashlib.sha1(f.read()).hexdigest()
    return out


def read_dir(path, dtype, d, what):
    """Validity predicate 'metadata consistent with the files' for one stored data type.
    Returns (metadata, chunk entries, decoded rows per entry)."""
    check(os.path.isdir(path), what + ".directory_missing", (path, d))
    check(not os.path.exists(path + "_temp"), what + ".temp_directory_left", (path, d))
    parts = os.path.basename(path).split("-")
    check(len(parts) == 3, what + ".directory_name", (path, d))
    run_id, data_type, lhash = parts
    md_name = f"{data_type}-{lhash}-metadata.json"
    on_disk = set(os.listdir(path))
    check(md_name in on_disk, what + ".metadata_file_missing", (sorted(on_disk), d))
    with open(os.path.join(path, md_name)) as f:
        meta = json.load(f)
    check(isinstance(meta.get("writing_ended"), (int, float)), what + ".meta.no_completion_marker", d)
    check("exception" not in meta, what + ".meta.exception_recorded", (meta.get("exception"), d))
    check(meta.get("run_id") == run_id == RUN and meta.get("data_type") == data_type and meta.get("data_kind") == "k",
          what + ".meta.identity", ({k: meta.get(k) for k in ("run_id", "data_type", "data_kind")}, path, d))
    check(meta.get("lineage_hash") == lhash, what + ".meta.lineage_hash_vs_directory", (meta.get("lineage_hash"), path, d))
    check(meta.get("compressor") in COMPRESSORS, what + ".meta.compressor", (meta.get("compressor"), d))
    try:
        md_dtype = np.dtype(literal_eval(meta["dtype"]))
    except Exception as e:  # noqa
        raise Violation(what + ".meta.dtype_unreadable", f"{e!r} {d}")
    check(md_dtype == dtype, what + ".meta.dtype", (meta["dtype"], str(dtype), d))
    entries = meta.get("chunks")
    check(isinstance(entries, list) and len(entries) >= 1, what + ".meta.no_chunks", d)
    for i, m in enumerate(entries):
        check(m.get("chunk_i") == i, what + ".meta.chunk_i_not_consecutive", ([m.get("chunk_i") for m in entries], d))
        check(m.get("run_id") == RUN, what + ".meta.chunk_run_id", (m, d))
        check(isinstance(m.get("start"), int) and isinstance(m.get("end"), int) and m["start"] <= m["end"],
              what + ".meta.chunk_range", (m, d))
    for m, m2 in zip(entries[:-1], entries[1:]):
        check(m["end"] == m2["start"], what + ".meta.chunks_not_contiguous", ([(m["start"], m["end"]) for m in entries], d))
    check(meta.get("start") == entries[0]["start"] and meta.get("end") == entries[-1]["end"],
          what + ".meta.overall_vs_chunks", (meta.get("start"), meta.get("end"), d))
    named = set()
    rows = []
    for m in entries:
        n = m.get("n")
        check(isinstance(n, int) and n >= 0, what + ".meta.n_invalid", (m, d))
        if n == 0:
            check("filename" not in m and m.get("nbytes") == 0, what + ".meta.empty_chunk_entry", (m, d))
            rows.append(np.zeros(0, dtype))
            continue
        fn = m.get("filename")
        check(isinstance(fn, str) and fn not in named, what + ".meta.filename", (m, d))
        named.add(fn)
        p = os.path.join(path, fn)
        check(os.path.isfile(p), what + ".named_file_missing", (fn, sorted(on_disk), d))
        try:
            raw = c03.decode_file(meta["compressor"], p)
        except Exception as e:  # noqa
            raise Violation(what + ".file_not_decodable_with_named_compressor", f"{e!r} {fn} {meta['compressor']} {d}")
        check(len(raw) == n * dtype.itemsize == m.get("nbytes"), what + ".meta.n_or_nbytes",
              (len(raw), n, m.get("nbytes"), d))
        x = np.frombuffer(raw, dtype=dtype)
        rows.append(x)
        if "filesize" in m:
            check(m["filesize"] == os.path.getsize(p), what + ".meta.filesize", (m["filesize"], os.path.getsize(p), d))
        et = c03.ref_endtime(x)
        want = dict(first_time=int(x["time"][0]), last_time=int(x["time"][-1]),
                    first_endtime=int(et[0]), last_endtime=int(et[-1]))
        check({k: m.get(k) for k in want} == want, what + ".meta.first_last_row_times", (m, want, d))
        check(int(x["time"].min()) >= m["start"] and int(et.max()) <= m["end"], what + ".meta.rows_outside_chunk", (m, d))
    check(on_disk - {md_name} == named, what + ".file_set_differs_from_metadata",
          (sorted(on_disk - {md_name}), sorted(named), d))
    return meta, entries, rows


def cat(rows, dtype):
    return np.concatenate(rows) if rows else np.zeros(0, dtype)


def spans(entries):
    return [(m["start"], m["end"], m["n"]) for m in entries]


def check_layout(lay, target, got, src, rechunked, d, what):
    """got / src: [(start, end, n)].  Without rechunking the layout is the source's; with rechunking every boundary
    is one of the source's or lies where no row is straddled; the overall range never changes."""
    check(got[0][0] == src[0][0] and got[-1][1] == src[-1][1], what + ".overall_range_changed", (got, src, d))
    if not rechunked:
        check(got == src, what + ".layout_changed_without_rechunk", (got, src, d))
        return
    edges = {x for s, e, _ in src for x in (s, e)}
    srows = lay.rows_of(target)
    for s, e, _ in got:
        for x in (s, e):
            check(x in edges or gen.admissible(srows, x), what + ".boundary_straddles_row", (x, got, d))


def check_same_identity(meta, src_meta, d, what):
    for k in ("lineage", "lineage_hash", "data_type", "data_kind", "run_id", "dtype"):
        check(meta.get(k) == src_meta.get(k), what + ".identity_changed:" + k, (meta.get(k), src_meta.get(k), d))


def load_with_strax(parent, plugins, target, L, d, what, ref, t0, t1, chunk_number=None, whole=True):
    """Fresh context on `parent` only; nothing may be (re)computed.  Returns the loaded chunk spans."""
    ctx = context([parent], plugins, forbid_creation_of="*")
    kw = dict(chunk_number=chunk_number) if chunk_number is not None else {}
    check(must(what + ".is_stored_raised", d, ctx.is_stored, RUN, target, **kw), what + ".not_reported_stored", d)
    out = must(what + ".load_raised", d, lambda: list(ctx.get_iter(
        RUN, target, processor=L["proc"], max_workers=L["workers"], progress_bar=False, **kw)))
    check(len(out) >= 1, what + ".no_chunks_loaded", d)
    for a, b in zip(out[:-1], out[1:]):
        check(a.end == b.start, what + ".loaded_chunks_not_contiguous", ([(o.start, o.end) for o in out], d))
    if whole:
        check(out[0].start == t0 and out[-1].end == t1, what + ".loaded_range", ((out[0].start, out[-1].end), (t0, t1), d))
    for o in out:
        if len(o.data):
            check(int(o.data["time"].min()) >= o.start and int(c03.ref_endtime(o.data).max()) <= o.end,
                  what + ".loaded_row_outside_chunk", ((o.start, o.end), d))
    got = np.concatenate([o.data for o in out])
    check(got.dtype == ref.dtype and got.tobytes() == ref.tobytes() and c03.same_bytes(got, ref),
          what + ".loaded_rows_differ", (len(got), len(ref), d))
    return [(o.start, o.end, len(o)) for o in out]


def check_dry_load(path, entries, rows, dtype, d, what, k=None):
    """strax.dry_load_files reads the directory without a context: all chunks, and a drawn subset."""
    got = must(what + ".dry_load_raised", d, strax.dry_load_files, path, disable=True)
    want = cat(rows, dtype)
    check(len(got) == len(want) and np.asarray(got).tobytes() == want.tobytes(), what + ".dry_load_rows_differ", d)
    if k is not None:
        i = k % len(entries)
        sel = sorted({i, (i * 7 + 3) % len(entries)})
        got = must(what + ".dry_load_subset_raised", d, strax.dry_load_files, path, chunk_numbers=sel, disable=True)
        want = cat([rows[j] for j in sel], dtype)
        check(len(got) == len(want) and np.asarray(got).tobytes() == want.tobytes(),
              what + ".dry_load_subset_rows_differ", (sel, d))


def check_destination(lay, target, path, src_meta, src_entries, want_comp, rechunked, d, what, plugins, k=0):
    """Everything the property says about a destination directory.  Returns (meta, entries)."""
    L = lay.L
    dtype = lay.dtypes[target]
    ref = lay.ref[target]
    meta, entries, rows = read_dir(path, dtype, d, what)
    check(c03.same_bytes(cat(rows, dtype), ref), what + ".stored_rows_differ", d)
    check(meta["compressor"] == want_comp, what + ".compressor_not_as_requested", (meta["compressor"], want_comp, d))
    check_same_identity(meta, src_meta, d, what)
    check_layout(lay, target, spans(entries), spans(src_entries), rechunked, d, what)
    check(os.path.basename(path) == f"{RUN}-{target}-{src_meta['lineage_hash']}", what + ".key_changed", (path, d))
    loaded = load_with_strax(os.path.dirname(path), plugins, target, L, d, what, ref, lay.t0, lay.t1)
    check(loaded == spans(entries), what + ".loaded_chunks_differ_from_metadata", (loaded, spans(entries), d))
    check_dry_load(path, entries, rows, dtype, d, what, k)
    return meta, entries


def base_classes(lay, target, src_entries):
    L = lay.L
    cl = {"proc:" + L["proc"], "target:" + target, "enc:" + L["enc"]}
    n = len(src_entries)
    cl.add("chunks:" + ("1" if n == 1 else "2" if n == 2 else "3-5" if n <= 5 else "6+"))
    if any(m["n"] == 0 for m in src_entries):
        cl.add("empty_chunk")
    if any(m["start"] == m["end"] for m in src_entries):
        cl.add("zero_duration_chunk")
    if not len(lay.ref[target]):
        cl.add("no_rows")
    if any(f["shape"] for f in L["fields"]):
        cl.add("array_field")
    if any(f["title"] for f in L["fields"]):
        cl.add("titled_field")
    if L["nlead"] and L["fields"]:
        cl.add("fields_before_time")
    if L["ros"] or (target == "aa" and L["a_ros"]):
        cl.add("rechunked_on_save")
    rows = lay.rows_of(target)
    if any(b > a2 for (a, b), (a2, b2) in zip(rows[:-1], rows[1:])):
        cl.add("overlapping_rows")
    return cl


def store_source(lay, root, target, d, name="src", rol=0):
    """Write `target` (and what it needs) into root/name.  Returns (plugins, dir of target, meta, entries, rows)."""
    plugins = lay.plugins(rol=rol)
    parent = os.path.join(root, name)
    ctx = context([parent], plugins)
    make(ctx, lay.L, target, d)
    key = str(must("setup.key_for_raised", d, ctx.key_for, RUN, target))
    path = os.path.join(parent, key)
    meta, entries, rows = read_dir(path, lay.dtypes[target], d, "setup")
    check(c03.same_bytes(cat(rows, lay.dtypes[target]), lay.ref[target]), "setup.stored_rows_differ", d)
    check(entries[0]["start"] == lay.t0 and entries[-1]["end"] == lay.t1, "setup.stored_range", (spans(entries), d))
    return plugins, path, meta, entries, rows


# ------------------------------------------------------------------------------------------------
# copy_to_frontend
# ------------------------------------------------------------------------------------------------
@st.composite
def st_copy(draw):
    L = draw(st_layout())
    nfront = draw(st.sampled_from([2, 2, 3]))
    src = draw(st.integers(0, nfront - 1))
    others = [i for i in range(nfront) if i != src]
    tid = draw(st.sampled_from([None] + others))
    readonly = []
    if nfront == 3 and draw(st.integers(0, 2)) == 0:
        cand = [i for i in others if i != tid]
        if tid is None:
            cand = cand[:1]
        readonly = cand[:1]
    return dict(layout=L, target=draw(st.sampled_from(["ss", "ss", "aa"])),
                op=dict(nfront=nfront, src=src, tid=tid, readonly=readonly,
                        comp=draw(st.sampled_from([None] + COMPRESSORS)), rechunk=draw(st.booleans()),
                        tgt=draw(st.sampled_from([None, 1, 2, 3, 5, 8])), k=draw(st.integers(0, 50))))


def run_copy(d):
    lay = Layout(d["layout"])
    root = scratch("copy")
    try:
        with quiet():
            return _run_copy(d, lay, root)
    finally:
        shutil.rmtree(root, ignore_errors=True)


def _run_copy(d, lay, root):
    L, op, target = d["layout"], d["op"], d["target"]
    dirs = [os.path.join(root, f"f{i}") for i in range(op["nfront"])]
    for p in dirs:
        os.makedirs(p)
    plugins, src_path, src_meta, src_entries, _ = store_source(lay, root, target, d, name=f"f{op['src']}")
    key = os.path.basename(src_path)
    before = [snapshot(p) for p in dirs]
    ctx = context(dirs, plugins, readonly=op["readonly"])
    kw = dict(target_frontend_id=op["tid"], target_compressor=op["comp"], rechunk=op["rechunk"])
    if op["tgt"] is not None:
        kw["rechunk_to_mb"] = (op["tgt"] + 0.5) * lay.dtypes[target].itemsize / 1e6
    must("copy.raised", d, ctx.copy_to_frontend, RUN, target, **kw)
    check(str(ctx.key_for(RUN, target)) == key, "copy.key_changed", d)
    dests = [op["tid"]] if op["tid"] is not None else [i for i in range(op["nfront"])
                                                        if i != op["src"] and i not in op["readonly"]]
    want_comp = op["comp"] or src_meta["compressor"]
    cl = base_classes(lay, target, src_entries)
    changed = False
    nmax = 0
    for i, p in enumerate(dirs):
        if i in dests:
            check(sorted(os.listdir(p)) == [key], "copy.destination_frontend_content", (i, sorted(os.listdir(p)), d))
            meta, entries = check_destination(lay, target, os.path.join(p, key), src_meta, src_entries, want_comp,
                                              op["rechunk"], d, "copy", plugins, op["k"])
            changed = changed or spans(entries) != spans(src_entries)
            nmax = max(nmax, len(entries))
        else:
            # the source frontend and frontends that were not asked / are read-only stay byte-identical
            check(snapshot(p) == before[i], "copy.source_modified" if i == op["src"] else "copy.bystander_modified",
                  (i, d))
    cl.add("dest:" + ("all" if op["tid"] is None else "index"))
    cl.add(f"frontends:{op['nfront']}")
    if len(dests) > 1:
        cl.add("two_destinations")
    if op["readonly"]:
        cl.add("readonly_bystander")
    cl.add("comp:" + str(op["comp"]))
    recompressed = want_comp != src_meta["compressor"]
    if recompressed:
        cl.add("recompressed")
    cl.add("rechunk_on" if op["rechunk"] else "rechunk_off")
    if op["rechunk"] and op["tgt"] is None:
        cl.add("default_rechunk_to_mb")
    if changed:
        cl.add("layout_changed")
    return dict(nt=max(len(src_entries), nmax) >= 3 and (recompressed or changed), classes=sorted(cl))


# ------------------------------------------------------------------------------------------------
# stand-alone rechunker
# ------------------------------------------------------------------------------------------------
DEST_MODES = ["new_parent", "new_full", "replace_tmp", "replace_parent", "replace_full"]


@st.composite
def st_rechunker(draw):
    L = draw(st_layout())
    script = draw(st.sampled_from([False] * 7 + [True]))
    op = dict(comp=draw(st.sampled_from([None] + COMPRESSORS)),
              tgt=draw(st.sampled_from([None, 1, 2, 3, 5, 8])),
              rechunk=draw(st.booleans()),
              parallel=draw(st.sampled_from([False, False, True, "thread", "thread"])),
              workers=draw(st.sampled_from([1, 2, 4])),
              dest=draw(st.sampled_from(DEST_MODES)), script=script, k=draw(st.integers(0, 50)))
    if script:
        # the command line has no switch for rechunk=False, takes whole MB, and replaces iff no destination is named
        op.update(rechunk=True, tgt=draw(st.sampled_from([None, 1, 3])),
                  dest=draw(st.sampled_from(["new_parent", "new_full", "replace_tmp"])))
    return dict(layout=L, target=draw(st.sampled_from(["ss", "ss", "aa"])), op=op)


GRID_LAYOUTS = [
    dict(rows=[[0, 1], [1, 2], [4, 5], [5, 7], [10, 11], [13, 14]], t1=16, cuts=[2, 3, 3, 9, 15]),
    dict(rows=[[1, 5], [1, 2], [2, 3], [8, 12], [9, 10], [15, 16]], t1=16, cuts=[7, 13]),
    dict(rows=[], t1=3, cuts=[1, 1]),
]
GRID_FIELDS = [dict(t="i2", shape=[3], title=False), dict(t="f4", shape=[], title=True),
               dict(t="u1", shape=[2, 2], title=False), dict(t="?", shape=[], title=False)]


def grid_layout(i, k, **kw):
    lay = GRID_LAYOUTS[i]
    L = dict(enc="endtime" if k % 2 == 0 else "dt", time_titles=True, fields=GRID_FIELDS, nlead=1, unit=1000, dtk=k,
             shift=k % 3, rows=lay["rows"], t1=lay["t1"], cuts=lay["cuts"], seed=1000 + k,
             comp=COMPRESSORS[k % 4], ros=0, proc=PROCS[k % 2], workers=1 + k % 2, keep=KEEPS[k % 6],
             keep2=KEEPS[0], a_ros=0, a_comp=COMPRESSORS[(k + 1) % 4])
    L.update(kw)
    return L


def enum_rechunker_process(tier, seed):
    """parallel='process' costs a process pool per case: thorough tier only."""
    if tier != "thorough":
        return
    k = 0
    for i in range(len(GRID_LAYOUTS)):
        for comp in [None] + COMPRESSORS:
            for tgt, rechunk in ((None, False), (1, True), (3, True), (None, True)):
                for dest in DEST_MODES:
                    k += 1
                    yield dict(layout=grid_layout(i, k + seed), target="ss" if k % 3 else "aa",
                               op=dict(comp=comp, tgt=tgt, rechunk=rechunk, parallel="process", workers=1 + k % 2,
                                       dest=dest, script=(k % 11 == 0 and dest in ("new_parent", "new_full", "replace_tmp")
                                                          and rechunk), k=k))


def run_rechunker(d):
    lay = Layout(d["layout"])
    root = scratch("rk")
    try:
        with quiet():
            return _run_rechunker(d, lay, root)
    finally:
        shutil.rmtree(root, ignore_errors=True)


def call_script(argv):
    from strax.scripts import rechunker as script

    old = sys.argv
    sys.argv = ["rechunker"] + argv
    try:
        script.main()
    finally:
        sys.argv = old


def _run_rechunker(d, lay, root):
    L, op, target = d["layout"], d["op"], d["target"]
    plugins, src_path, src_meta, src_entries, _ = store_source(lay, root, target, d)
    key = os.path.basename(src_path)
    itemsize = lay.dtypes[target].itemsize
    before = snapshot(src_path)
    d2 = os.path.join(root, "dst")
    replace = op["dest"].startswith("replace")
    dest_arg = {"new_parent": d2, "new_full": os.path.join(d2, key), "replace_tmp": None,
                "replace_parent": d2, "replace_full": os.path.join(d2, key)}[op["dest"]]
    if op["script"]:
        tgt_mb = op["tgt"]  # whole MB: far above the data size, so rechunking merges everything
        argv = ["--source", src_path, "--parallel", str(op["parallel"]), "--max_workers", str(op["workers"])]
        if dest_arg is not None:
            argv += ["--dest", dest_arg]
        if op["comp"] is not None:
            argv += ["--compressor", op["comp"]]
        if tgt_mb is not None:
            argv += ["--target_size_mb", str(tgt_mb)]
        else:
            tgt_mb = strax.DEFAULT_CHUNK_SIZE_MB
        must("rechunker.script_raised", d, call_script, argv)
    else:
        tgt_mb = None if op["tgt"] is None else (op["tgt"] + 0.5) * itemsize / 1e6
        must("rechunker.raised", d, strax.rechunker, src_path, dest_directory=dest_arg, replace=replace,
             compressor=op["comp"], target_size_mb=tgt_mb, rechunk=op["rechunk"], progress_bar=True,
             parallel=op["parallel"], max_workers=op["workers"], _timeout=300)
    want_comp = op["comp"] or src_meta["compressor"]
    if replace:
        # the old files are gone (read_dir: the directory holds exactly the files the new metadata names, and they
        # decode with the new compressor) and the new ones load
        out_path = src_path
    else:
        out_path = os.path.join(d2, key)
        check(snapshot(src_path) == before, "rechunker.source_modified_without_replace", d)
    meta, entries = check_destination(lay, target, out_path, src_meta, src_entries, want_comp, op["rechunk"], d,
                                      "rechunker", plugins, op["k"])
    if tgt_mb is not None:
        check(meta.get("chunk_target_size_mb") == tgt_mb, "rechunker.meta.chunk_target_size_mb",
              (meta.get("chunk_target_size_mb"), tgt_mb, d))
    changed = spans(entries) != spans(src_entries)
    cl = base_classes(lay, target, src_entries)
    cl.add("dest:" + op["dest"])
    cl.add("parallel:" + str(op["parallel"]))
    cl.add(f"workers:{op['workers']}")
    cl.add("comp:" + str(op["comp"]))
    recompressed = want_comp != src_meta["compressor"]
    if recompressed:
        cl.add("recompressed")
    cl.add("rechunk_on" if op["rechunk"] else "rechunk_off")
    cl.add("target:none" if op["tgt"] is None else "target:given")
    if op["script"]:
        cl.add("via_script")
    if changed:
        cl.add("layout_changed")
        if len(entries) > 1:
            cl.add("layout_changed_multi_out")
    return dict(nt=max(len(src_entries), len(entries)) >= 3 and (recompressed or changed), classes=sorted(cl))


# ------------------------------------------------------------------------------------------------
# rechunk on load
# ------------------------------------------------------------------------------------------------
@st.composite
def st_load_rechunk(draw):
    # the loader only splits at gaps > 1000 ns between rows of one stored chunk: large units, few stored chunks
    L = draw(st_layout(few_cuts=draw(st.booleans())))
    L["unit"] = draw(st.sampled_from([500, 1000, 1000, 1001, 1001, 250_000_000, 1]))
    return dict(layout=L, op=dict(rol=draw(st.sampled_from([1, 1, 2, 3, 6])), down=draw(st.booleans())))


def run_load_rechunk(d):
    lay = Layout(d["layout"])
    root = scratch("rol")
    try:
        with quiet():
            return _run_load_rechunk(d, lay, root)
    finally:
        shutil.rmtree(root, ignore_errors=True)


def _run_load_rechunk(d, lay, root):
    L, op = d["layout"], d["op"]
    _, src_path, src_meta, src_entries, _ = store_source(lay, root, "ss", d)
    before = snapshot(os.path.dirname(src_path))
    # the same plugin (same lineage, same key) now declares rechunk_on_load with a small source size
    plugins = lay.plugins(rol=op["rol"])
    ctx = context([os.path.dirname(src_path)], plugins, forbid_creation_of=("ss",))
    check(str(ctx.key_for(RUN, "ss")) == os.path.basename(src_path), "load_rechunk.key_changed", d)
    loaded = load_with_strax(os.path.dirname(src_path), plugins, "ss", L, d, "load_rechunk", lay.ref["ss"],
                             lay.t0, lay.t1)
    check_layout(lay, "ss", loaded, spans(src_entries), True, d, "load_rechunk")
    cl = base_classes(lay, "ss", src_entries)
    split = loaded != spans(src_entries)
    if split:
        cl.add("loader_split_something")
    if op["down"]:
        out = must("load_rechunk.downstream_raised", d, lambda: list(ctx.get_iter(
            RUN, "aa", save=(), processor=L["proc"], max_workers=L["workers"], progress_bar=False)))
        got = np.concatenate([o.data for o in out])
        check(c03.same_bytes(got, lay.ref["aa"]), "load_rechunk.downstream_rows_differ", d)
        check(out[0].start == lay.t0 and out[-1].end == lay.t1
              and all(a.end == b.start for a, b in zip(out[:-1], out[1:])), "load_rechunk.downstream_range", d)
        cl.add("downstream")
        shutil.rmtree(os.path.join(os.path.dirname(src_path), str(ctx.key_for(RUN, "aa"))), ignore_errors=True)
    check(snapshot(os.path.dirname(src_path)) == before, "load_rechunk.source_modified", d)
    return dict(nt=max(len(src_entries), len(loaded)) >= 3 and split, classes=sorted(cl))


# ------------------------------------------------------------------------------------------------
# per-chunk build + merge
# ------------------------------------------------------------------------------------------------
def groups_of(nch, bounds):
    """bounds[i] true = a new job starts at chunk i+1."""
    out = [[0]]
    for i in range(1, nch):
        if bounds[i - 1]:
            out.append([i])
        else:
            out[-1].append(i)
    return out


@st.composite
def st_perchunk(draw):
    L = draw(st_layout(max_rows=(5, 12, 12), ros=(0,)))
    nch = len(L["cuts"]) + 1
    mode = draw(st.sampled_from(["any", "any", "any", "singletons", "one"]))
    bounds = [True if mode == "singletons" else False if mode == "one" else draw(st.sampled_from([True, True, False]))
              for _ in range(nch - 1)]
    ng = 1 + sum(bounds)
    order = draw(st.permutations(list(range(ng))))
    partial = None
    if ng >= 3 and draw(st.sampled_from([True, False])):
        # >= 2 jobs (one job alone already is its own "merge"), not all of them
        i = draw(st.integers(0, ng - 2))
        j = draw(st.integers(i + 2, ng))
        if (i, j) != (0, ng):
            partial = [i, j]
    return dict(layout=L, target=draw(st.sampled_from(["bb", "aa"])), bounds=bounds, order=order,
                op=dict(rechunk=draw(st.booleans()), tgt=draw(st.sampled_from([None, 1, 2, 3, 5, 8])),
                        comp=draw(st.sampled_from([None, None] + COMPRESSORS)),
                        frontend=draw(st.sampled_from(["same", "same", "other", "all"])),
                        default_groups=draw(st.booleans()), partial=partial, k=draw(st.integers(0, 50))))


PERCHUNK_EXH_LAYOUTS = [
    dict(rows=[[0, 1], [2, 3], [5, 6], [8, 9], [11, 12], [14, 16], [18, 19]], t1=20),
    dict(rows=[[0, 2], [1, 3], [4, 5], [4, 9], [12, 13]], t1=14),
]


def enum_perchunk(tier, seed):
    maxn = 7 if tier == "thorough" else 5
    k = 0
    for li, lay in enumerate(PERCHUNK_EXH_LAYOUTS):
        adm = [c for c in gen.admissible_times(lay["rows"], 0, lay["t1"]) if 0 < c < lay["t1"]]
        for nch in range(1, maxn + 1):
            step = max(1, len(adm) // nch)
            cuts = sorted(adm[::step][: nch - 1])
            assert len(cuts) == nch - 1, (lay, nch, adm)
            if nch >= 4:
                cuts[1] = cuts[0]  # a zero-duration chunk among the dependency's chunks
            for bits in itertools.product([False, True], repeat=nch - 1):
                k += 1
                L = grid_layout(0, k + seed, rows=lay["rows"], t1=lay["t1"], cuts=cuts, a_ros=[0, 0, 2][k % 3])
                ng = 1 + sum(bits)
                yield dict(layout=L, target="aa" if k % 4 else "bb", bounds=list(bits),
                           order=list(range(ng)) if k % 2 else list(range(ng))[::-1],
                           op=dict(rechunk=bool(k % 3 == 0), tgt=[None, 2, 5][k % 3], comp=None, frontend="same",
                                   default_groups=True, partial=None, k=k))


def run_perchunk(d):
    lay = Layout(d["layout"])
    root = scratch("pc")
    try:
        with quiet():
            return _run_perchunk(d, lay, root)
    finally:
        shutil.rmtree(root, ignore_errors=True)


def tagged_lineage_ok(lineage, plain, dep, numbers):
    """Lineage of a per-chunk result = the plain lineage with chunk_number={dep: numbers} added to the config of
    the plugin(s) that read `dep` directly, and nothing else changed."""
    if set(lineage) != set(plain):
        return False
    for k, v in plain.items():
        want = [v[0], v[1], dict(v[2])]
        if k == "aa":  # the only plugin depending on the per-chunked data type
            want[2]["chunk_number"] = {dep: list(numbers)}
        if list(lineage[k][:2]) != want[:2] or dict(lineage[k][2]) != want[2]:
            return False
    return True


def _run_perchunk(d, lay, root):
    L, op, target = d["layout"], d["op"], d["target"]
    dep = "ss"
    dtype = lay.dtypes[target]
    plugins, dep_path, dep_meta, dep_entries, _ = store_source(lay, root, dep, d, name="f0")
    f0 = os.path.dirname(dep_path)
    nch = len(dep_entries)
    check(spans(dep_entries) == [(s, e, n) for s, e, _, n in lay.written], "setup.dependency_layout", d)
    groups = groups_of(nch, d["bounds"])
    ctx = context([f0], plugins)
    plain_key = str(ctx.key_for(RUN, target))
    made = ["aa"] if target == "aa" else ["aa", "bb"]  # a job stores every data type it computes

    # ---- directly made data (other directory, same plugins)
    ctx_direct = context([os.path.join(root, "direct")], lay.plugins())
    make(ctx_direct, L, dep, d)
    make(ctx_direct, L, target, d, clause="direct.make_raised")
    check(str(ctx_direct.key_for(RUN, target)) == plain_key, "setup.keys_of_equal_contexts_differ", d)
    dmeta, dentries, drows = read_dir(os.path.join(root, "direct", plain_key), dtype, d, "direct")
    direct = cat(drows, dtype)
    check(c03.same_bytes(direct, lay.ref[target]), "direct.rows_differ_from_reference", d)

    # ---- the jobs
    keys = {}
    for gi in d["order"]:
        g = groups[gi]
        cn = {dep: g}
        make(ctx, L, target, d, clause="perchunk.job_raised", chunk_number=cn)
        for t in made:
            key = str(must("perchunk.key_for_raised", d, ctx.key_for, RUN, t, chunk_number=cn))
            keys[(t, gi)] = key
            path = os.path.join(f0, key)
            meta, entries, rows = read_dir(path, lay.dtypes[t], d, "perchunk.job")
            want = lay.ref_for_chunks(t, g)
            check(c03.same_bytes(cat(rows, lay.dtypes[t]), want), "perchunk.job_rows_differ", (t, g, d))
            check(entries[0]["start"] == dep_entries[g[0]]["start"] and entries[-1]["end"] == dep_entries[g[-1]]["end"],
                  "perchunk.job_range", (t, g, spans(entries), d))
            plain_lineage = json.loads(json.dumps(ctx.lineage(RUN, t)))
            check(tagged_lineage_ok(meta["lineage"], plain_lineage, dep, g), "perchunk.job_lineage_tag",
                  (t, g, meta["lineage"], d))
        check(not ctx.is_stored(RUN, target), "perchunk.whole_target_reported_stored_after_a_job", (g, d))
    for t in made:
        ks = [keys[(t, gi)] for gi in range(len(groups))]
        pk = str(ctx.key_for(RUN, t))
        check(len(set(ks)) == len(ks) and pk not in ks, "perchunk.job_keys_collide", (t, ks, pk, d))
    # a job's result loads through the context under its chunk_number
    g0 = groups[op["k"] % len(groups)]
    load_with_strax(f0, plugins, target, L, d, "perchunk.job", lay.ref_for_chunks(target, g0), None, None,
                    chunk_number={dep: g0}, whole=False)

    pieces_before = snapshot(f0)
    cl = base_classes(lay, target, dep_entries)

    # ---- optional partial merge of a consecutive sub-range of the jobs
    rechunk_mb = None if op["tgt"] is None else (op["tgt"] + 0.5) * dtype.itemsize / 1e6
    mkw = dict(rechunk=op["rechunk"])
    if rechunk_mb is not None:
        mkw["rechunk_to_mb"] = rechunk_mb
    if op["comp"] is not None:
        mkw["target_compressor"] = op["comp"]
    if op["partial"]:
        i, j = op["partial"]
        sub = groups[i:j]
        numbers = [x for g in sub for x in g]
        must("perchunk.partial_merge_raised", d, ctx.merge_per_chunk_storage, RUN, target, dep,
             chunk_number_group=sub, **mkw)
        check(not ctx.is_stored(RUN, target), "perchunk.partial_merge_reported_as_whole", d)
        pkey = str(ctx.key_for(RUN, target, chunk_number={dep: numbers}))
        meta, entries, rows = read_dir(os.path.join(f0, pkey), dtype, d, "perchunk.partial")
        check(c03.same_bytes(cat(rows, dtype), lay.ref_for_chunks(target, numbers)), "perchunk.partial_rows_differ", d)
        check(not os.path.exists(os.path.join(f0, plain_key)), "perchunk.partial_merge_wrote_plain_key", d)
        cl.add("partial_merge_first")
        pieces_before = snapshot(f0)

    # ---- the merge
    dirs = [f0]
    tid = None
    if op["frontend"] != "same":
        dirs.append(os.path.join(root, "f1"))
        tid = 1 if op["frontend"] == "other" else None
    elif op["k"] % 2:
        tid = 0
    ctx_m = context(dirs, plugins) if len(dirs) > 1 else ctx
    singletons = all(len(g) == 1 for g in groups)
    if singletons and op["default_groups"]:
        cl.add("default_chunk_number_group")
    else:
        mkw["chunk_number_group"] = groups
    must("perchunk.merge_raised", d, ctx_m.merge_per_chunk_storage, RUN, target, dep, target_frontend_id=tid, **mkw)
    check(ctx_m.is_stored(RUN, target), "perchunk.merged_not_reported_stored", d)
    dests = [f0] if op["frontend"] == "same" else [dirs[1]] if op["frontend"] == "other" else dirs
    # the per-chunk results (the sources of the merge) are left intact
    after = snapshot(f0)
    after = {k: v for k, v in after.items() if not k.startswith(plain_key + "/")} if f0 in dests else after
    check(after == pieces_before, "perchunk.pieces_modified_by_merge", d)
    # chunk layout of all pieces in job order
    piece_spans = []
    for gi in range(len(groups)):
        _, e, _ = read_dir(os.path.join(f0, keys[(target, gi)]), dtype, d, "perchunk.job")
        piece_spans += spans(e)
    changed = False
    for p in dests:
        path = os.path.join(p, plain_key)
        meta, entries, rows = read_dir(path, dtype, d, "perchunk.merged")
        check(c03.same_bytes(cat(rows, dtype), lay.ref[target]), "perchunk.merged_rows_differ_from_reference", d)
        check(cat(rows, dtype).tobytes() == direct.tobytes(), "perchunk.merged_rows_differ_from_directly_made", d)
        for k in ("lineage", "lineage_hash", "data_type", "data_kind", "run_id", "dtype"):
            check(meta.get(k) == dmeta.get(k), "perchunk.merged_identity_differs_from_directly_made:" + k,
                  (meta.get(k), dmeta.get(k), d))
        check_layout(lay, target, spans(entries), piece_spans, op["rechunk"], d, "perchunk.merged")
        loaded = load_with_strax(p, plugins, target, L, d, "perchunk.merged", lay.ref[target], lay.t0, lay.t1)
        check(loaded == spans(entries), "perchunk.merged.loaded_chunks_differ_from_metadata", (loaded, spans(entries), d))
        check_dry_load(path, entries, rows, dtype, d, "perchunk.merged", op["k"])
        changed = changed or spans(entries) != piece_spans
        if op["comp"] is not None and meta["compressor"] != op["comp"]:
            cl.add("merge_target_compressor_ignored")
    cl.add(f"jobs:{min(len(groups), 4)}{'+' if len(groups) >= 4 else ''}")
    cl.add("depth:" + ("1" if target == "aa" else "2"))
    cl.add("merge_to:" + op["frontend"])
    cl.add("rechunk_on" if op["rechunk"] else "rechunk_off")
    if any(len(g) > 1 for g in groups):
        cl.add("multi_chunk_job")
    if list(d["order"]) != sorted(d["order"]):
        cl.add("jobs_out_of_order")
    if changed:
        cl.add("layout_changed")
    if spans(dentries) != piece_spans:
        cl.add("pieces_layout_differs_from_direct")
    return dict(nt=nch >= 3 and len(groups) >= 2, classes=sorted(cl))


SUBCHECKS = [
    SubCheck("copy", run_copy, strategy=st_copy, quick=600, thorough=12000),
    SubCheck("rechunker", run_rechunker, strategy=st_rechunker, quick=800, thorough=16000),
    SubCheck("rechunker_process", run_rechunker, enumerate=enum_rechunker_process),
    SubCheck("load_rechunk", run_load_rechunk, strategy=st_load_rechunk, quick=320, thorough=6000),
    SubCheck("perchunk", run_perchunk, strategy=st_perchunk, quick=360, thorough=6000),
    SubCheck("perchunk_exh", run_perchunk, enumerate=enum_perchunk, exhaustive_in=("quick", "thorough")),
]
