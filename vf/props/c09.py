"""C09 - overlap-window plugins give chunking-independent results at chunk boundaries.

Every case builds a run of disjoint, sorted rows, cuts it into a law-abiding chunking (many chunks shorter than
the window, empty and zero-duration chunks, rows longer than the window), and feeds it to a freshly created
`strax.OverlapWindowPlugin` subclass whose `compute` is one of two window-local computations:

  row    one output row per input row:  n = number, v = weighted sum of the input rows whose *endtime* lies in
         [endtime - L, endtime + R]  (the locality contract of docs/source/developer/overlaps.rst);
  group  one output row per cluster of input rows chained by gaps < g, spanning the cluster
         (the "event finder" of the same document).

Oracle (the property statement itself): the concatenated output equals the same function applied once to the
whole run;  nothing lost, duplicated or computed from incomplete neighbours;  output chunks contiguous from the
run start to the run end;  for multi-output plugins every message of `Plugin.iter` carries the same
(start, end) for all outputs.

A quarter of the cases give the plugin a second input of another data kind (its own disjoint rows, same chunk
boundaries) that the computation also looks at, so that the aligned caching of several inputs is exercised.

Sub-checks: ctx_st / ctx_mt run the plugin through a real `strax.Context` (generated source plugins, no storage)
with the single_thread / threaded_mailbox processor;  iter drives `Plugin.iter` directly.
"""
import threading
import time

import numpy as np
from hypothesis import strategies as st

import strax
from vf import gen
from vf.core import SubCheck, Violation, bucket_of

PROPERTY_ID = "C09"
LEVEL = "exploration"
RULE = (
    "Descriptors are drawn from Hypothesis strategies: disjoint sorted rows on an integer grid (gaps 0..9, lengths "
    "1..12, i.e. both below and above every window) scaled by a unit and shifted by a run offset; a sorted multiset "
    "of admissible cut times (none / few / many / every row edge / every admissible grid point, duplicates give "
    "zero-duration chunks); a window (w_left, w_right) in {0..3}^2 x unit declared as int, float, tuple or list; a "
    "computation (row | group) with its reach; single- or multi-output (second output = per-row passthrough); in "
    "25% of the cases a second input of another kind (disjoint rows of its own, may overlap the first input's rows, "
    "same chunk boundaries); the "
    "processor (ctx_st: single_thread, ctx_mt: threaded_mailbox with max_workers None or 2) or direct Plugin.iter. "
    "A case is non-trivial when the run has >= 3 chunks, some chunk of positive duration is shorter than the larger "
    "window side, and some pair of rows that influence each other under the computation (endtime distance within "
    "the reach / chained by a gap < g) lies in different chunks.  distinct = distinct descriptor hashes."
)
ASSUMPTIONS = [
    "inputs obey the laws of chunking and the OverlapWindowPlugin docstring: rows disjoint (hence sorted by time "
    "and by endtime), positive duration, wholly inside their chunk; zero-duration chunks are empty; the run has "
    "positive duration; one dependency, or two dependencies of different kinds cut at the same times (the "
    "time-alignment of unequally chunked inputs is property C08); each input then has <= 10 rows, so that the "
    "documented max_trials = 10 alignment passes of cache_beyond cannot be exhausted",
    "locality contract, regime 'contract' (80% of cases): row computation - output i depends only on input rows j "
    "with endtime_i - w_left <= endtime_j <= endtime_i + w_right (overlaps.rst: objects whose endtimes are more "
    "than a window apart do not influence each other; window_size[0] = look-back, [1] = look-ahead as used by "
    "cache_inputs_beyond / invalid_beyond); group computation - rows are chained when the gap between them is "
    "< g <= w_right, whatever the row lengths; rows of a second input count when their endtime lies in the same "
    "endtime window (row) / inside the cluster's own span (group)",
    "implementation margins derived from overlap_window_plugin.do_compute: results are released only when they "
    "end <= input end - 2*w_right - 1, and input is cached from <= sent_until - 2*w_left - 1; hence a row "
    "computation with look-back <= 2*w_left+1 / look-ahead <= 2*w_right+1 and a group computation with "
    "g <= 2*w_right+1 (any w_left: a cluster straddling the previous release point is excluded by the output split) "
    "are supported.  Regime 'margin' (20% of cases, clauses suffixed [margin]) uses reach 2*w, strictly inside "
    "these margins but beyond the documented contract; it relies on the safety factor the code comments promise "
    "('take slightly larger windows for safety', 'a bit of overkill') and exists to detect a narrowed margin",
    "oracle = the plugin's own compute function applied once to the whole run (that is the property); compared "
    "bit-exactly",
    "threaded_mailbox runs use real threads; only the result and the absence of left-over threads are checked, "
    "no schedule is controlled; mailbox timeout 120 s",
]

try:  # tqdm's process-wide monitor thread is not a processing thread; do not start it
    import tqdm as _tqdm

    _tqdm.tqdm.monitor_interval = 0
except Exception:  # pragma: no cover
    pass

DT_ROW = np.dtype(strax.time_fields + [("id", np.int64), ("n", np.int64), ("v", np.int64)])
DT_GROUP = np.dtype(strax.time_fields + [("first", np.int64), ("last", np.int64), ("n", np.int64)])
DT_PASS = np.dtype(strax.time_fields + [("id", np.int64)])


# ------------------------------------------------------------------------------------------------
# the window-local computations (also the whole-run oracle)
# ------------------------------------------------------------------------------------------------
def comp_row(x, L, R, y=None):
    """One row per row of x: n / v = number / weighted sum of the rows of x (and, x100 / x1009, of the second
    input y) whose endtime lies in [endtime - L, endtime + R]."""
    e = gen.endtimes(x)
    out = np.zeros(len(x), DT_ROW)
    out["time"] = x["time"]
    out["endtime"] = e
    out["id"] = x["id"]
    if len(x):
        for arr, cn, cv in ((x, 1, 1), (y, 100, 1009)):
            if arr is None or not len(arr):
                continue
            d = gen.endtimes(arr)[None, :] - e[:, None]  # d[i, j] = endtime_j - endtime_i
            m = (d >= -L) & (d <= R)
            out["n"] += cn * m.sum(axis=1)
            out["v"] += cv * (m * (arr["id"][None, :] + 1) * (1 + np.abs(d))).sum(axis=1)
    return out


def comp_group(x, g, y=None):
    """One row per cluster of rows of x chained by gaps < g, spanning the cluster; n = members (+ 100 x the rows
    of the second input y that end inside the cluster's span)."""
    n = len(x)
    if not n:
        return np.zeros(0, DT_GROUP)
    t = x["time"].astype(np.int64)
    e = gen.endtimes(x)
    new = np.ones(n, dtype=bool)
    new[1:] = (t[1:] - e[:-1]) >= g
    first = np.flatnonzero(new)
    last = np.r_[first[1:], n] - 1
    out = np.zeros(len(first), DT_GROUP)
    out["time"] = t[first]
    out["endtime"] = e[last]
    out["first"] = x["id"][first]
    out["last"] = x["id"][last]
    out["n"] = last - first + 1
    if y is not None and len(y):
        ey = gen.endtimes(y)
        out["n"] += 100 * ((ey[None, :] > out["time"][:, None]) & (ey[None, :] <= out["endtime"][:, None])).sum(axis=1)
    return out


def comp_pass(x):
    out = np.zeros(len(x), DT_PASS)
    out["time"] = x["time"]
    out["endtime"] = gen.endtimes(x)
    out["id"] = x["id"]
    return out


# ------------------------------------------------------------------------------------------------
# generator
# ------------------------------------------------------------------------------------------------
PROFILES = {  # (gaps, lengths) on the grid; windows are 0..3 grid steps, the margins 2*w+1 <= 7
    "tight": ([0, 0, 0, 1, 1, 2], [1, 1, 1, 2, 2, 3]),
    "mixed": ([0, 0, 1, 1, 2, 3, 4, 5, 7, 9], [1, 1, 2, 2, 3, 4, 5, 8, 12]),
    "long_rows": ([0, 0, 1, 1, 2], [1, 4, 5, 7, 8, 12]),
    "long_gaps": ([0, 1, 3, 4, 6, 7, 8, 9], [1, 1, 2, 3]),
}


@st.composite
def st_rows(draw, profile, min_sizes, max_size):
    gaps, lens = PROFILES[profile]
    pairs = draw(st.lists(st.tuples(st.sampled_from(gaps), st.sampled_from(lens)),
                          min_size=draw(st.sampled_from(min_sizes)), max_size=max_size))
    t = draw(st.integers(0, 3))
    rows = []
    for gap, ln in pairs:
        rows.append([t + gap, t + gap + ln])
        t = rows[-1][1]
    return rows


@st.composite
def st_case(draw, mode):
    profile = draw(st.sampled_from(["tight", "tight", "mixed", "mixed", "long_rows", "long_gaps"]))
    two = draw(st.sampled_from([False, False, False, True]))
    rows = draw(st_rows(profile, [0, 1, 3, 5, 8], 10 if two else 14))
    rows_b = draw(st_rows(draw(st.sampled_from(sorted(PROFILES))), [0, 1, 3], 8)) if two else None
    last = max([b for _, b in rows + (rows_b or [])] + [0])
    t1 = max(last + draw(st.sampled_from([0, 0, 1, 2, 5, 9])), 1)
    both = rows + (rows_b or [])
    adm = [s for s in range(0, t1 + 1) if gen.admissible(both, s)]
    inner = [s for s in adm if 0 < s < t1]
    shape = draw(st.sampled_from(["few", "many", "many", "edges", "dense", "dense", "dup", "none"]))
    if shape == "none":
        cuts = []
    elif shape == "few":
        cuts = sorted(draw(st.lists(st.sampled_from(adm), max_size=5)))
    elif shape == "many":
        cuts = sorted(draw(st.lists(st.sampled_from(adm), max_size=30)))
    elif shape == "edges":
        cuts = [s for s in gen.admissible_times(both, 0, t1) if 0 < s < t1 and gen.admissible(both, s)]
    elif shape == "dense":
        cuts = inner
    else:
        cuts = sorted(inner + draw(st.lists(st.sampled_from(adm), max_size=6)))
    unit = draw(st.sampled_from([1, 1, 1, 2, 7, 1000]))
    base = draw(st.sampled_from([0, 0, 1, 5, 10 ** 6]))
    form = draw(st.sampled_from(["int", "tuple", "tuple", "tuple", "float", "list"]))
    wr = draw(st.sampled_from([0, 1, 2, 2, 3, 3]))
    wl = draw(st.sampled_from([0, 1, 2, 2, 3, 3])) if form in ("tuple", "list") else wr
    comp = draw(st.sampled_from(["row", "group"]))
    regime = draw(st.sampled_from(["contract"] * 4 + ["margin"]))
    d = dict(profile=profile, rows=rows, t1=t1, cuts=cuts, unit=unit, base=base, form=form, wl=wl, wr=wr, comp=comp,
             regime=regime, multi=draw(st.booleans()), enc=draw(st.sampled_from(["endtime", "endtime", "dt"])))
    if two:
        d["rows_b"] = rows_b
    if comp == "group":
        gmax = wr if regime == "contract" else 2 * wr
        d["g"] = draw(st.sampled_from([gmax, gmax, gmax, draw(st.integers(0, gmax))]))
    if d["multi"] and mode != "iter":
        d["target"] = draw(st.sampled_from(["main", "pass", "both"]))
    if mode == "mt":
        d["workers"] = draw(st.sampled_from([None, None, 2]))
    return d


# ------------------------------------------------------------------------------------------------
# building a case
# ------------------------------------------------------------------------------------------------
class Case:
    def __init__(self, d):
        self.d = d
        u = self.u = d["unit"]
        base = d["base"]
        self.t0 = base * u
        self.t1 = (base + d["t1"]) * u
        cuts = [c + base for c in d["cuts"]]
        enc = d["enc"] if u < 2 ** 15 else "endtime"
        self.two = d.get("rows_b") is not None
        self.rows = [[a + base, b + base] for a, b in d["rows"]]
        self.arr = gen.rows_to_array(self.rows, unit=u, enc=enc)
        self.inputs = {"src": self.arr}
        self.rows_of = {"src": self.rows}
        if self.two:
            self.rows_b = [[a + base, b + base] for a, b in d["rows_b"]]
            self.arr_b = gen.rows_to_array(self.rows_b, unit=u)
            self.inputs["srb"] = self.arr_b
            self.rows_of["srb"] = self.rows_b
        else:
            self.arr_b = None
        self.parts = {}  # data type -> [(start, end, data)]
        for k, arr in self.inputs.items():
            self.parts[k] = []
            for a, b, idx in gen.partition(self.rows_of[k], base, base + d["t1"], cuts):
                sub = arr[idx[0]: idx[-1] + 1] if idx else arr[:0]
                self.parts[k].append((a * u, b * u, sub.copy()))
        self.wl, self.wr = d["wl"] * u, d["wr"] * u
        k = 1 if d["regime"] == "contract" else 2
        if d["comp"] == "row":
            L, R = k * self.wl, k * self.wr
            self.reach = (L, R)
            self.fn = lambda x, y=None: comp_row(x, L, R, y)
            self.out_dtype = DT_ROW
        else:
            g = d["g"] * u
            self.reach = g
            self.fn = lambda x, y=None: comp_group(x, g, y)
            self.out_dtype = DT_GROUP
        self.expected = dict(ov=self.fn(self.arr, self.arr_b), ov_pass=comp_pass(self.arr))
        self.tag = "" if d["regime"] == "contract" else "[margin]"

    # -- plugin classes -----------------------------------------------------------------------
    def window_value(self):
        f = self.d["form"]
        if f == "int":
            return int(self.wr)
        if f == "float":
            return float(self.wr)
        if f == "tuple":
            return (int(self.wl), int(self.wr))
        return [int(self.wl), int(self.wr)]

    def plugin_classes(self):
        fn = self.fn
        win = self.window_value()
        sources = []
        for k, arr in self.inputs.items():
            def src_compute(self, chunk_i, _parts=self.parts[k]):
                a, b, data = _parts[chunk_i]
                return self.chunk(start=a, end=b, data=data.copy())

            sources.append(type("C09_" + k, (strax.Plugin,), dict(
                provides=k, depends_on=(), dtype=arr.dtype, data_kind=k, rechunk_on_save=False,
                is_ready=lambda self, chunk_i, _n=len(self.parts[k]): chunk_i < _n,
                source_finished=lambda self: True, compute=src_compute)))

        multi = self.d["multi"]
        if self.two:
            def compute(self, src, srb):
                r = fn(src, srb)
                return dict(ov=r, ov_pass=comp_pass(src)) if multi else r
        else:
            def compute(self, src):
                r = fn(src)
                return dict(ov=r, ov_pass=comp_pass(src)) if multi else r
        if multi:
            attrs = dict(provides=("ov", "ov_pass"), data_kind=dict(ov="ov", ov_pass="ov_pass"),
                         dtype=dict(ov=self.out_dtype, ov_pass=DT_PASS))
        else:
            attrs = dict(provides="ov", data_kind="ov", dtype=self.out_dtype)
        Ov = type("C09Ov", (strax.OverlapWindowPlugin,), dict(
            depends_on=tuple(self.inputs), get_window_size=lambda self: win, compute=compute, **attrs))
        return sources + [Ov]

    def source_iters(self):
        return {k: iter([strax.Chunk(start=a, end=b, data=data.copy(), data_type=k, data_kind=k,
                                     dtype=self.inputs[k].dtype, run_id="r") for a, b, data in parts])
                for k, parts in self.parts.items()}

    # -- classification -----------------------------------------------------------------------
    def classify(self):
        d = self.d
        cl = set()
        parts = self.parts["src"]
        durs = [b - a for a, b, _ in parts]
        wmax = max(self.wl, self.wr)
        n = len(parts)
        short = [0 < x < wmax for x in durs]
        if n >= 3:
            cl.add("chunks>=3")
        if n >= 8:
            cl.add("chunks>=8")
        if any(short):
            cl.add("chunk_shorter_than_window")
        if any(short[i] and short[i + 1] and short[i + 2] for i in range(n - 2)):
            cl.add("3_consecutive_short_chunks")
        if any(x == 0 for x in durs):
            cl.add("zero_duration_chunk")
        if durs[0] == 0:
            cl.add("zero_duration_first_chunk")
        if durs[-1] == 0:
            cl.add("zero_duration_last_chunk")
        if any(x > 0 and not len(p[2]) for x, p in zip(durs, parts)):
            cl.add("empty_chunk")
        lens = [(b - a) * self.u for a, b in self.rows]
        gaps = [(self.rows[i + 1][0] - self.rows[i][1]) * self.u for i in range(len(self.rows) - 1)]
        if wmax and any(x > wmax for x in lens):
            cl.add("row_longer_than_window")
        if any(x > 2 * wmax + 1 for x in lens):
            cl.add("row_longer_than_2w+1")
        if any(x > 2 * wmax + 1 for x in gaps):
            cl.add("gap_longer_than_2w+1")
        if any(x == 0 for x in gaps):
            cl.add("touching_rows")
        cl.add("window:" + ("zero" if wmax == 0 else "sym" if self.wl == self.wr else
                            "left_zero" if self.wl == 0 else "right_zero" if self.wr == 0 else
                            "left<right" if self.wl < self.wr else "left>right"))
        cl.add("form:" + d["form"])
        cl.add("comp:" + d["comp"] + ("+pass" if d["multi"] else ""))
        cl.add("regime:" + d["regime"])
        cl.add("inputs:" + ("2" if self.two else "1"))
        if d["unit"] > 1:
            cl.add("unit>1")
        if d["base"]:
            cl.add("run_start>0")
        if not self.rows:
            cl.add("no_rows")
        # which chunk holds each row
        owner = {}
        for k in self.parts:
            owner[k] = []
            for ci, (_, _, data) in enumerate(self.parts[k]):
                owner[k] += [ci] * len(data)
        e = [b * self.u for _, b in self.rows]
        pair_cut = False
        if d["comp"] == "row":
            L, R = self.reach
            for k in self.parts:
                ek = [b * self.u for _, b in self.rows_of[k]]
                for i in range(len(e)):
                    for j in range(len(ek)):
                        if (k != "src" or i != j) and owner["src"][i] != owner[k][j] and e[i] - L <= ek[j] <= e[i] + R:
                            pair_cut = True
                            if k == "srb":
                                cl.add("influencing_pair_cut_2nd_input")
        else:
            for i, gp in enumerate(gaps):
                if gp < self.reach and owner["src"][i] != owner["src"][i + 1]:
                    pair_cut = True
            exp = self.expected["ov"]
            if len(exp) and (exp["n"] % 100).max() >= 3:
                cl.add("cluster>=3_rows")
            owner_of_id = dict(zip(self.arr["id"].tolist(), owner["src"]))
            if any(owner_of_id[int(r["last"])] - owner_of_id[int(r["first"])] >= 2 for r in exp):
                cl.add("cluster_over>=3_chunks")
        if pair_cut:
            cl.add("influencing_pair_cut")
        if self.two:
            a = np.asarray(self.rows, dtype=np.int64).reshape(-1, 2)
            b = np.asarray(self.rows_b, dtype=np.int64).reshape(-1, 2)
            if len(a) and len(b) and ((a[:, None, 0] < b[None, :, 1]) & (b[None, :, 0] < a[:, None, 1])).any():
                cl.add("inputs_overlap_each_other")
        nt = n >= 3 and any(short) and pair_cut
        return nt, sorted(cl)


# ------------------------------------------------------------------------------------------------
# oracle comparison
# ------------------------------------------------------------------------------------------------
def _show(x, cap=12):
    return [tuple(int(v) for v in r) for r in x[:cap]] + (["..."] if len(x) > cap else [])


def compare_rows(case, sub, name, got, exp):
    """Bit-exact equality with the whole-run result; on failure say what went wrong."""
    if gen.arrays_equal(got, exp):
        return
    tag = case.tag
    if got.dtype != exp.dtype:
        raise Violation(f"{sub}.dtype{tag}", f"{name}: {got.dtype} != {exp.dtype}")
    key = [n for n in exp.dtype.names if n in ("id", "first")][0]
    g = got[key].tolist()
    x = exp[key].tolist()
    ctx = f"{name}: got {_show(got)} expected {_show(exp)} (fields {exp.dtype.names})"
    if len(set(g)) < len(g):
        raise Violation(f"{sub}.result_duplicated{tag}", ctx)
    if set(x) - set(g) and not set(g) - set(x):
        raise Violation(f"{sub}.result_lost{tag}", ctx)
    if g == x or set(g) != set(x):
        raise Violation(f"{sub}.result_from_incomplete_neighbours{tag}", ctx)
    raise Violation(f"{sub}.result_order{tag}", ctx)


def check_stream(case, sub, name, spans):
    """Output chunks contiguous, from the run start to the run end."""
    tag = case.tag
    if not spans:
        raise Violation(f"{sub}.no_output{tag}", name)
    for (a0, b0), (a1, b1) in zip(spans[:-1], spans[1:]):
        if b0 != a1:
            raise Violation(f"{sub}.not_contiguous{tag}", f"{name}: {spans}")
    if spans[0][0] != case.t0 or spans[-1][1] != case.t1:
        raise Violation(f"{sub}.range{tag}", f"{name}: chunks {spans}, run [{case.t0}, {case.t1}]")


def check_rows_inside(case, sub, name, chunks):
    for c in chunks:
        if len(c.data) and (c.data["time"].min() < c.start or gen.endtimes(c.data).max() > c.end):
            raise Violation(f"{sub}.row_outside_chunk{case.tag}", f"{name}: {c} {_show(c.data)}")


def raised(case, sub, e):
    """The property demands that processing succeeds: an exception from strax on these inputs is a violation.
    (An exception without a strax frame is a harness error and is passed on unchanged.)"""
    b = bucket_of(e)
    if b is None or isinstance(e, Violation):
        raise e
    raise Violation(f"{sub}.raised:{b[4:]}{case.tag}", f"{e!r}"[:600]) from e


def cat(chunks, dtype):
    return np.concatenate([c.data for c in chunks]) if chunks else np.zeros(0, dtype)


# ------------------------------------------------------------------------------------------------
# through a Context
# ------------------------------------------------------------------------------------------------
def _wait_threads(before, complain):
    deadline = time.time() + 20
    while True:
        extra = [t for t in threading.enumerate()
                 if t not in before and t.is_alive() and type(t).__name__ != "TMonitor"]
        if not extra:
            return
        if time.time() > deadline:
            if complain:
                raise RuntimeError(f"threads left behind after a completed run: {extra}")
            return
        time.sleep(0.002)


def run_ctx(d, processor):
    case = Case(d)
    sub = "ctx_st" if processor == "single_thread" else "ctx_mt"
    classes = case.plugin_classes()
    targets = dict(main=["ov"], both=["ov", "ov_pass"])
    targets["pass"] = ["ov_pass"]
    targets = targets[d.get("target", "main")]
    before = set(threading.enumerate())
    kw = dict(progress_bar=False, processor=processor)
    if processor == "threaded_mailbox":
        kw["max_workers"] = d.get("workers")
    ctx = strax.Context(storage=[], register=classes, timeout=120)
    spans = {}
    for tg in targets:
        try:
            chunks = list(ctx.get_iter("r", tg, **kw))
        except Exception as e:
            _wait_threads(before, complain=False)
            raised(case, sub, e)
        _wait_threads(before, complain=True)
        for c in chunks:
            if c.data_type != tg:
                raise Violation(f"{sub}.wrong_data_type{case.tag}", f"{c.data_type} for {tg}")
        spans[tg] = [(c.start, c.end) for c in chunks]
        check_stream(case, sub, tg, spans[tg])
        check_rows_inside(case, sub, tg, chunks)
        compare_rows(case, sub, tg, cat(chunks, case.expected[tg].dtype), case.expected[tg])
    if len(targets) == 2 and spans["ov"] != spans["ov_pass"]:
        raise Violation(f"{sub}.outputs_not_aligned{case.tag}", f"{spans}")
    nt, cl = case.classify()
    if d["multi"]:
        cl.append("target:" + d["target"])
    if processor == "threaded_mailbox":
        cl.append("max_workers:" + str(d.get("workers")))
    return dict(nt=nt, classes=cl)


def run_ctx_st(d):
    return run_ctx(d, "single_thread")


def run_ctx_mt(d):
    return run_ctx(d, "threaded_mailbox")


# ------------------------------------------------------------------------------------------------
# Plugin.iter driven directly
# ------------------------------------------------------------------------------------------------
def run_iter(d):
    case = Case(d)
    sub = "iter"
    tag = case.tag
    ctx = strax.Context(storage=[], register=case.plugin_classes())
    p = ctx.get_single_plugin("r", "ov")
    provides = list(p.provides)
    try:
        msgs = list(p.iter(iters=case.source_iters()))
    except Exception as e:
        raised(case, sub, e)
    per_out = {k: [] for k in provides}
    for i, m in enumerate(msgs):
        if d["multi"]:
            if not isinstance(m, dict) or sorted(m) != sorted(provides):
                raise Violation(f"iter.message_not_a_dict_of_all_outputs{tag}", f"message {i}: {m!r}")
            spans = {k: (m[k].start, m[k].end) for k in provides}
            if len(set(spans.values())) != 1:
                raise Violation(f"iter.outputs_not_aligned{tag}", f"message {i} of {len(msgs)}: {spans}")
        else:
            if not isinstance(m, strax.Chunk):
                raise Violation(f"iter.message_not_a_chunk{tag}", f"message {i}: {m!r}")
            m = {"ov": m}
        for k in provides:
            if m[k].data_type != k:
                raise Violation(f"iter.wrong_data_type{tag}", f"{m[k].data_type} for {k}")
            per_out[k].append(m[k])
    for k in provides:
        check_stream(case, sub, k, [(c.start, c.end) for c in per_out[k]])
        check_rows_inside(case, sub, k, per_out[k])
        compare_rows(case, sub, k, cat(per_out[k], case.expected[k].dtype), case.expected[k])
    nt, cl = case.classify()
    return dict(nt=nt, classes=cl)


SUBCHECKS = [
    SubCheck("ctx_st", run_ctx_st, strategy=lambda: st_case("st"), quick=2500, thorough=150000),
    SubCheck("ctx_mt", run_ctx_mt, strategy=lambda: st_case("mt"), quick=1000, thorough=30000),
    SubCheck("iter", run_iter, strategy=lambda: st_case("iter"), quick=3500, thorough=250000),
]
