"""C07 - splitting, concatenating, merging and rechunking obey the laws of chunking.

Oracles: brute-force reference on Python lists ("greatest admissible time <= t"), list/column
references for concatenate/merge, a validity predicate for the rechunker, and partition-of-spans
for sub-/super-run annotations.
"""
import itertools

import numpy as np
from hypothesis import strategies as st

import strax
from vf import gen
from vf.core import SubCheck, Violation
from vf.findings import signature

PROPERTY_ID = "C07"
LEVEL = "exploration"
RULE = (
    "Descriptors (rows on an integer grid scaled by a unit, chunk range, cut lists, target sizes, run "
    "annotations) are drawn from Hypothesis strategies (sub-checks split/concat/merge/rechunk/superrun) and, "
    "for split_exh, enumerated exhaustively (all sorted arrays of <=3 (quick) / <=4 (thorough) rows on a 6-point "
    "grid x every split time x early/strict).  A case is non-trivial when a row straddles or touches the split "
    "time, rows overlap, the stream has >=3 chunks, the rechunker really changed the layout, or run annotations "
    "are split/merged across a run border.  distinct = distinct descriptor hashes."
)
ASSUMPTIONS = [
    "inputs obey the documented laws of chunking: rows sorted by time, positive duration, inside their chunk",
    "time values < 2**62; dtype has time+endtime or time+dt+length fields",
    "rechunker target sizes are >= one row (smaller targets are documented to raise 'Target size is too small')",
]


def mk_chunk(arr, start, end, run_id="r", data_type="x", data_kind="x", **kw):
    return strax.Chunk(start=int(start), end=int(end), data=arr, data_type=data_type, data_kind=data_kind,
                       dtype=arr.dtype, run_id=run_id, **kw)


TAGS = []  # facts observed while running the current case, appended to violation messages


def check(cond, clause, detail=""):
    if not cond:
        raise Violation(clause, "".join(f"[{t}]" for t in sorted(set(TAGS)))
                        + (detail if isinstance(detail, str) else repr(detail)))


# ------------------------------------------------------------------------------------------------
# split
# ------------------------------------------------------------------------------------------------
@st.composite
def st_split(draw):
    rows = draw(gen.st_rows(max_n=7))
    lead = draw(st.integers(0, 3))
    tail = draw(st.integers(0, 3))
    unit = draw(st.sampled_from([1, 1, 7, 1000]))
    enc = draw(st.sampled_from(["endtime", "dt"]))
    return dict(rows=rows, lead=lead, tail=tail, unit=unit, enc=enc, early=draw(st.booleans()))


def enum_split(tier, seed):
    G = 6
    maxn = 4 if tier == "thorough" else 3
    ivs = [(a, b) for a in range(G) for b in range(a + 1, G + 1)]
    for n in range(0, maxn + 1):
        for combo in itertools.combinations_with_replacement(ivs, n):
            rows = [list(r) for r in combo]  # sorted by (start,end) since ivs is sorted
            for perm_rows in _start_sorted_orders(rows):
                for early in (False, True):
                    yield dict(rows=perm_rows, lead=0, tail=1, unit=1, enc="endtime", early=early)


def _start_sorted_orders(rows):
    """All orders of rows that are sorted by start (rows with equal start may come in any order)."""
    groups = []
    for k, g in itertools.groupby(rows, key=lambda r: r[0]):
        g = list(g)
        perms = set(itertools.permutations([tuple(x) for x in g]))
        groups.append(sorted(perms))
    for choice in itertools.product(*groups):
        yield [list(r) for grp in choice for r in grp]


def run_split(d):
    u = d["unit"]
    rows = [[(a + d["lead"]), (b + d["lead"])] for a, b in d["rows"]]
    t0 = 0
    t1 = max([b for _, b in rows] + [d["lead"]]) + d["tail"]
    arr = gen.rows_to_array(rows, unit=u, enc=d["enc"])
    c = mk_chunk(arr, t0 * u, t1 * u)
    early = d["early"]
    srows = [(a * u, b * u) for a, b in rows]
    classes = set()
    # candidate split times: every grid point from t0-2 .. t1+2, and off-grid neighbours
    cand = set()
    for g in range(t0 - 2, t1 + 3):
        cand.add(g * u)
        if u > 1:
            cand.update((g * u - 1, g * u + 1))
    if any(a < 0 for a in cand):
        pass
    overlapping = any(rows[i + 1][0] < max(r[1] for r in rows[: i + 1]) for i in range(len(rows) - 1))
    nt = overlapping
    grid = sorted({0, t1 * u} | {x for r in srows for x in r})
    for t in sorted(cand):
        tc = max(min(t, t1 * u), t0 * u)
        adm = gen.admissible(srows, tc)
        if any(a < tc < b or tc in (a, b) for a, b in srows):
            nt = True
        try:
            left, right = c.split(t, allow_early_split=early)
        except strax.CannotSplit:
            check(not early, "split.refused_although_early_allowed", (d, t))
            check(not adm, "split.refused_admissible_time", (d, t))
            classes.add("refused")
            continue
        check(early or adm, "split.accepted_straddling_time", (d, t))
        if adm:
            exp_t = tc
        else:
            exp_t = max(s for s in grid if s <= tc and gen.admissible(srows, s))
            classes.add("early_moved")
        check(left.start == t0 * u and right.end == t1 * u, "split.outer_range", (d, t, left.start, right.end))
        check(left.end == right.start, "split.not_adjacent", (d, t, left.end, right.start))
        check(left.end == exp_t, "split.wrong_split_time", (d, t, left.end, exp_t))
        check(gen.arrays_equal(np.concatenate([left.data, right.data]), arr), "split.rows_changed", (d, t))
        check(all(e <= exp_t for e in gen.endtimes(left.data)), "split.left_row_beyond_t", (d, t))
        check(all(s >= exp_t for s in right.data["time"]), "split.right_row_before_t", (d, t))
        for piece in (left, right):
            check(piece.data_type == "x" and piece.data_kind == "x" and piece.run_id == "r"
                  and piece.dtype == arr.dtype, "split.metadata_changed", (d, t))
        back = strax.Chunk.concatenate([left, right])
        check(back.start == t0 * u and back.end == t1 * u and gen.arrays_equal(back.data, arr),
              "split.concatenate_not_inverse", (d, t))
        classes.add("split_ok")
    if overlapping:
        classes.add("overlapping_rows")
    return dict(nt=nt, classes=sorted(classes))


# ------------------------------------------------------------------------------------------------
# concatenate
# ------------------------------------------------------------------------------------------------
@st.composite
def st_concat(draw):
    rows = draw(gen.st_rows(max_n=8))
    tail = draw(st.integers(0, 2))
    t1 = max([b for _, b in rows] + [0]) + tail
    cuts = draw(gen.st_cuts(rows, 0, t1))
    unit = draw(st.sampled_from([1, 7, 1000]))
    invalid = draw(st.sampled_from([None, None, None, "swap", "overlap", "data_type", "run_id", "drop_none"]))
    return dict(rows=rows, t1=t1, cuts=cuts, unit=unit, invalid=invalid,
                k=draw(st.integers(0, 8)), enc=draw(st.sampled_from(["endtime", "dt"])))


def build_stream(rows, t1, cuts, unit, enc="endtime", target_size_mb=None, run_id="r"):
    arr = gen.rows_to_array(rows, unit=unit, enc=enc)
    chunks = []
    for a, b, idx in gen.partition(rows, 0, t1, cuts):
        sub = arr[idx[0]: idx[-1] + 1] if idx else arr[:0]
        kw = {}
        if target_size_mb is not None:
            kw["target_size_mb"] = target_size_mb
        chunks.append(mk_chunk(sub.copy(), a * unit, b * unit, run_id=run_id, **kw))
    return arr, chunks


def run_concat(d):
    arr, chunks = build_stream(d["rows"], d["t1"], d["cuts"], d["unit"], d["enc"])
    inv = d["invalid"]
    classes = []
    n = len(chunks)
    k = d["k"]
    expect_error = False
    if inv == "swap" and n >= 2:
        i = k % (n - 1)
        # swapping two adjacent chunks is out-of-order unless one of them has zero duration at the same point
        a, b = chunks[i], chunks[i + 1]
        chunks[i], chunks[i + 1] = b, a
        expect_error = b.end > a.start and not (a.start == a.end == b.start) and not (b.start == b.end)
        if not expect_error:
            inv = None
            chunks[i], chunks[i + 1] = a, b
        classes.append("invalid_swap" if expect_error else "swap_degenerate")
    elif inv == "overlap" and n >= 2:
        i = k % (n - 1)
        c = chunks[i]
        if chunks[i + 1].end > c.end:
            # extend chunk i over the start of chunk i+1 (its own data stays inside)
            chunks[i] = mk_chunk(c.data, c.start, c.end + 1)
            expect_error = True
            classes.append("invalid_overlap")
        else:
            inv = None
    elif inv == "data_type" and n >= 2:
        i = k % n
        c = chunks[i]
        chunks[i] = mk_chunk(c.data, c.start, c.end, data_type="y")
        expect_error = True
        classes.append("invalid_data_type")
    elif inv == "run_id" and n >= 2:
        i = k % n
        c = chunks[i]
        chunks[i] = mk_chunk(c.data, c.start, c.end, run_id="other")
        expect_error = True
        classes.append("invalid_run_id")
    elif inv == "drop_none":
        chunks = list(chunks)
        chunks.insert(k % (n + 1), None)
        classes.append("with_none")
    else:
        inv = None
    try:
        out = strax.Chunk.concatenate(chunks)
    except ValueError as e:
        check(expect_error, "concat.rejected_valid_input", (d, str(e)))
        return dict(nt=True, classes=classes + ["rejected"])
    check(not expect_error, "concat.accepted_invalid_input", (d, inv))
    u = d["unit"]
    check(out.start == 0 and out.end == d["t1"] * u, "concat.range", (d, out.start, out.end))
    check(gen.arrays_equal(out.data, arr), "concat.rows", d)
    check(out.run_id == "r" and out.data_type == "x", "concat.metadata", d)
    if n >= 3:
        classes.append("ge3_chunks")
    if any(c is not None and c.start == c.end for c in chunks):
        classes.append("zero_duration_chunk")
    return dict(nt=n >= 3, classes=classes)


# ------------------------------------------------------------------------------------------------
# merge (column-wise, same kind)
# ------------------------------------------------------------------------------------------------
FIELD_POOL = [("a", "i8"), ("b", "f4"), ("c", "i2"), ("a", "f8"), ("d", "u1"), ("e", "i4", (2,))]


@st.composite
def st_merge(draw):
    rows = draw(gen.st_rows(max_n=6))
    tail = draw(st.integers(0, 2))
    nparts = draw(st.integers(1, 3))
    parts = [draw(st.lists(st.integers(0, len(FIELD_POOL) - 1), min_size=0, max_size=3, unique=True))
             for _ in range(nparts)]
    invalid = draw(st.sampled_from([None, None, None, "length", "kind", "run_id", "range", "none"]))
    return dict(rows=rows, tail=tail, parts=parts, invalid=invalid, k=draw(st.integers(0, 5)),
                names=draw(st.permutations(["p0", "p1", "p2"])), seed=draw(st.integers(0, 10 ** 6)))


def run_merge(d):
    rows = d["rows"]
    t1 = max([b for _, b in rows] + [0]) + d["tail"]
    rng = np.random.RandomState(d["seed"])
    chunks = []
    arrs = []
    for pi, part in enumerate(d["parts"]):
        fields = []
        seen = set()
        for fi in part:
            f = FIELD_POOL[fi]
            if f[0] in seen:
                continue
            seen.add(f[0])
            fields.append(f)
        x = gen.rows_to_array(rows, extra=[tuple(f) for f in fields], ids=False)
        for f in fields:
            x[f[0]] = rng.randint(0, 100, size=x[f[0]].shape)
        arrs.append(x)
        chunks.append(mk_chunk(x, 0, t1, data_type=d["names"][pi]))
    inv = d["invalid"]
    k = d["k"]
    n = len(chunks)
    expect_error = False
    classes = []
    if inv == "length" and n >= 2 and len(rows) >= 1:
        i = k % n
        c = chunks[i]
        chunks[i] = mk_chunk(c.data[:-1], c.start, c.end, data_type=c.data_type)
        expect_error = True
    elif inv == "kind" and n >= 2:
        i = k % n
        c = chunks[i]
        chunks[i] = mk_chunk(c.data, c.start, c.end, data_type=c.data_type, data_kind="other")
        expect_error = True
    elif inv == "run_id" and n >= 2:
        i = k % n
        c = chunks[i]
        chunks[i] = mk_chunk(c.data, c.start, c.end, data_type=c.data_type, run_id="other")
        expect_error = True
    elif inv == "range" and n >= 2:
        i = k % n
        c = chunks[i]
        chunks[i] = mk_chunk(c.data, c.start, c.end + 1, data_type=c.data_type)
        expect_error = True
    elif inv == "none":
        chunks.insert(k % (n + 1), None)
    else:
        inv = None
    if inv:
        classes.append("invalid_" + inv if expect_error else "with_none")
    try:
        out = strax.Chunk.merge(chunks, data_type="merged")
    except ValueError as e:
        check(expect_error, "merge.rejected_valid_input", (d, str(e)))
        return dict(nt=True, classes=classes + ["rejected"])
    check(not expect_error, "merge.accepted_invalid_input", (d, inv))
    real = [c for c in chunks if c is not None]
    if len(real) == 1:
        check(out is real[0], "merge.single_not_identity", d)
        return dict(nt=False, classes=classes + ["single"])
    check(out.start == 0 and out.end == t1 and len(out) == len(rows), "merge.range_or_length", d)
    check(out.data_type == "merged" and out.data_kind == "x" and out.run_id == "r", "merge.metadata", d)
    # column reference: every field of every input present; on a name clash the LAST chunk (in the order
    # passed) wins the values; the field's dtype is that of the first chunk in data_type-sorted order
    want_val = {}
    for c in real:
        for name in c.data.dtype.names:
            want_val[name] = c.data[name]
    want_dt = {}
    for c in sorted(real, key=lambda c: c.data_type):
        for name in c.data.dtype.names:
            want_dt.setdefault(name, c.data.dtype[name])
    check(set(out.data.dtype.names) == set(want_val), "merge.field_set", (d, out.data.dtype.names))
    clash = False
    for name, v in want_val.items():
        check(out.data.dtype[name] == want_dt[name], "merge.field_dtype", (d, name))
        if want_dt[name] != v.dtype:
            clash = True
        check(np.array_equal(out.data[name], v.astype(want_dt[name].base if want_dt[name].shape else want_dt[name])),
              "merge.field_values", (d, name))
    if clash:
        classes.append("clashing_field_dtypes")
    ncl = sum(len(c.data.dtype.names) for c in real) - len(want_val)
    if ncl > 2 * (len(real) - 1):
        classes.append("clashing_names")
    return dict(nt=len(real) >= 2 and len(rows) >= 1, classes=classes)


# ------------------------------------------------------------------------------------------------
# rechunker
# ------------------------------------------------------------------------------------------------
@st.composite
def st_rechunk(draw):
    unit = draw(st.sampled_from([1, 400, 600, 1000, 1001, 250_000_000]))
    rows = draw(gen.st_rows(max_n=12, max_gap=3))
    tail = draw(st.integers(0, 3))
    t1 = max([b for _, b in rows] + [0]) + tail
    cuts = draw(gen.st_cuts(rows, 0, t1))
    return dict(rows=rows, t1=t1, cuts=cuts, unit=unit, target_rows=draw(st.integers(1, 9)),
                enc=draw(st.sampled_from(["endtime", "dt"])) if unit < 2 ** 15 else "endtime")


def validate_rechunked(d, arr, chunks, out, t1u, srows, prefix="rechunk"):
    check(len(out) >= 1, prefix + ".no_output", d)
    check(out[0].start == 0 and out[-1].end == t1u, prefix + ".overall_range", (d, out[0].start, out[-1].end))
    for a, b in zip(out[:-1], out[1:]):
        check(a.end == b.start, prefix + ".not_contiguous", (d, a.end, b.start))
    allr = np.concatenate([o.data for o in out])
    check(gen.arrays_equal(allr, arr), prefix + ".rows_changed", d)
    for o in out:
        if len(o):
            check(o.data["time"].min() >= o.start and gen.endtimes(o.data).max() <= o.end,
                  prefix + ".row_outside_chunk", (d, o.start, o.end))
        check(gen.admissible(srows, o.start) and gen.admissible(srows, o.end), prefix + ".cut_straddles_row",
              (d, o.start, o.end))
        check(o.data_type == "x" and o.run_id == chunks[0].run_id, prefix + ".metadata", d)


def run_rechunk(d):
    u = d["unit"]
    itemsize = gen.rows_to_array([], enc=d["enc"]).dtype.itemsize
    tgt = d["target_rows"] * itemsize / 1e6
    arr, chunks = build_stream(d["rows"], d["t1"], d["cuts"], u, d["enc"], target_size_mb=tgt)
    srows = [(a * u, b * u) for a, b in d["rows"]]
    R = strax.Rechunker(rechunk=True, run_id="r")
    out = []
    try:
        for c in chunks:
            out += R.receive(c)
        out += R.flush()
    except Exception as e:
        raise Violation("rechunk.raised_on_valid_input:" + type(e).__name__, f"{e!r} on {d}") from e
    validate_rechunked(d, arr, chunks, out, d["t1"] * u, srows)
    classes = []
    in_edges = [c.end for c in chunks[:-1]]
    out_edges = [c.end for c in out[:-1]]
    changed = in_edges != out_edges
    if changed:
        classes.append("layout_changed")
    if any(e not in in_edges for e in out_edges):
        classes.append("new_cut_in_gap")
    if len(out) > 1:
        classes.append("multi_out")
    # without rechunking the stream must pass through unchanged
    R0 = strax.Rechunker(rechunk=False, run_id="r")
    same = []
    for c in chunks:
        same += R0.receive(c)
    same += R0.flush()
    check(len(same) == len(chunks) and all(x is y for x, y in zip(same, chunks)), "rechunk.off_not_identity", d)
    return dict(nt=changed or len(chunks) >= 3, classes=classes)


@signature("F16_split_of_unaligned_superrun_chunk")
def _sig_f16(sub, desc, bucket, message):
    """Chunk.split leaves `subruns` untouched when the superrun chunk does not start/end on a subrun border:
    the pieces then carry spans outside their own range and later concatenation rejects them."""
    return (sub == "superrun" and "[split-of-superrun-chunk-not-aligned-with-its-subrun-spans]" in message
            and (bucket in ("clause:superrun.rechunk_span_outside", "clause:superrun.rechunk_spans_not_partition")
                 or (bucket == "clause:superrun.rechunker_raised:ValueError" and "was split into chunks" in message)))


# ------------------------------------------------------------------------------------------------
# sub-/super-run annotations
# ------------------------------------------------------------------------------------------------
@st.composite
def st_superrun(draw):
    nruns = draw(st.integers(1, 4))
    runs = []
    t = draw(st.integers(0, 2))
    nchunks = 0
    for i in range(nruns):
        rows = draw(gen.st_rows(max_n=4, first_max=0))
        dur = max([b for _, b in rows] + [0]) + draw(st.integers(0, 2))
        dur = max(dur, 1)
        cuts = [c for c in draw(gen.st_cuts(rows, 0, dur, max_cuts=2)) if 0 < c < dur]
        runs.append(dict(start=t, rows=rows, dur=dur, cuts=cuts))
        nchunks += len(cuts) + 1
        t += dur + draw(st.integers(0, 3))
    # grouping of consecutive per-run chunks into superrun-level chunks: list of group sizes
    groups = draw(st.lists(st.integers(1, 3), min_size=nchunks, max_size=nchunks))
    return dict(runs=runs, unit=draw(st.sampled_from([1, 400, 1000])), groups=groups,
                split_at=draw(st.integers(-1, t + 1)), early=draw(st.booleans()),
                target_rows=draw(st.integers(1, 6)))


def _spans(dct):
    return {k: (v["start"], v["end"]) for k, v in (dct or {}).items()}


def _check_partition(d, whole, tt, left, right, what, restore_run_id):
    """`whole`: {run: (s, e)};  left/right: chunk pieces after a split at tt."""
    for side, piece in (("left", left), ("right", right)):
        want = {}
        for k, (s, e) in whole.items():
            lo, hi = (s, min(e, tt)) if side == "left" else (max(s, tt), e)
            if lo < hi:
                want[k] = (lo, hi)
        got = _spans(getattr(piece, what))
        if what == "superrun" and not want:
            continue  # an empty piece falls back to the default {run_id: chunk range}
        check(got == want, f"superrun.split_{what}_{side}", (d, tt, got, want))
        if restore_run_id and len(want) == 1:
            check(piece.run_id == list(want)[0], "superrun.run_id_not_restored", (d, tt, piece.run_id, want))


def run_superrun(d):
    """Annotation life cycle as strax produces it:
    (a) chunks loaded for a subrun: run_id=subrun, subruns=None, superrun={run_id: chunk range} (default);
    (b) concatenated across runs with allow_superrun: run_id=None, superrun = spans per run;
    (c) superrun-level chunks: run_id='_s', subruns = spans per subrun of the pieces they were built from.
    Splitting must partition the spans, concatenating must add them up, the rechunker must preserve rows and
    keep per-subrun spans adjacent and complete."""
    u = d["unit"]
    A = []
    allrows = []
    runspan = {}
    for i, r in enumerate(d["runs"]):
        rid = f"run{i}"
        rows_abs = [[a + r["start"], b + r["start"]] for a, b in r["rows"]]
        runspan[rid] = (r["start"] * u, (r["start"] + r["dur"]) * u)
        for a, b, idx in gen.partition(r["rows"], 0, r["dur"], r["cuts"]):
            arr = gen.rows_to_array([rows_abs[j] for j in idx], unit=u,
                                    id_offset=len(allrows) + (idx[0] if idx else 0))
            s, e = (r["start"] + a) * u, (r["start"] + b) * u
            A.append(strax.Chunk(start=s, end=e, data=arr, data_type="x", data_kind="x", dtype=arr.dtype, run_id=rid))
        allrows += rows_abs
    ref = gen.rows_to_array(allrows, unit=u)
    srows = [(a * u, b * u) for a, b in allrows]
    nruns = len(d["runs"])
    classes = []
    t = d["split_at"] * u

    # ---- (a) -> (b)
    try:
        big = strax.Chunk.concatenate(A, allow_superrun=True)
    except Exception as e:
        raise Violation("superrun.concatenate_raised:" + type(e).__name__, f"{e!r} {d}") from e
    check(gen.arrays_equal(big.data, ref), "superrun.concat_rows", d)
    check(big.start == A[0].start and big.end == A[-1].end, "superrun.concat_range", d)
    if nruns >= 2:
        check(big.run_id is None, "superrun.concat_run_id", (d, big.run_id))
        check(_spans(big.superrun) == runspan, "superrun.concat_superrun", (d, _spans(big.superrun), runspan))
        try:
            strax.Chunk.concatenate(A)
        except ValueError:
            pass
        else:
            raise Violation("superrun.mixed_run_ids_accepted", repr(d))
    else:
        check(big.run_id == "run0", "superrun.single_run_id", d)
    if nruns >= 2 and len(A) >= 2:
        tc = max(min(t, big.end), big.start)
        try:
            left, right = big.split(t, allow_early_split=d["early"])
        except strax.CannotSplit:
            check(not d["early"] and not gen.admissible(srows, tc), "superrun.split_refused", (d, t))
            classes.append("refused")
        else:
            check(gen.arrays_equal(np.concatenate([left.data, right.data]), ref), "superrun.split_rows", d)
            _check_partition(d, runspan, left.end, left, right, "superrun", restore_run_id=True)
            if left.start != left.end and right.start != right.end:
                try:
                    back = strax.Chunk.concatenate([left, right], allow_superrun=True)
                except Exception as e:
                    raise Violation("superrun.reconcatenate_b_raised:" + type(e).__name__, f"{e!r} {d}") from e
                check(gen.arrays_equal(back.data, ref) and (back.start, back.end) == (big.start, big.end),
                      "superrun.reconcat_b", d)
                check(_spans(back.superrun) == runspan, "superrun.reconcat_b_superrun", (d, _spans(back.superrun)))
            if any(s < left.end < e for s, e in runspan.values()):
                classes.append("b_split_inside_run")

    # ---- (c) superrun-level chunks
    C = []
    i = 0
    for g in d["groups"]:
        if i >= len(A):
            break
        grp = A[i: i + g]
        i += g
        cc = strax.Chunk.concatenate(grp, allow_superrun=True)
        C.append(strax.Chunk(start=cc.start, end=cc.end, data=cc.data, data_type="x", data_kind="x",
                             dtype=cc.dtype, run_id="_s", subruns=cc.superrun))
        if len(cc.superrun) > 1:
            classes.append("c_chunk_spans_runs")
    try:
        bigc = strax.Chunk.concatenate(C, allow_superrun=True)
    except Exception as e:
        raise Violation("superrun.concatenate_c_raised:" + type(e).__name__, f"{e!r} {d}") from e
    check(gen.arrays_equal(bigc.data, ref), "superrun.concat_c_rows", d)
    check(bigc.run_id == "_s", "superrun.concat_c_run_id", d)
    check(_spans(bigc.subruns) == runspan, "superrun.concat_c_subruns", (d, _spans(bigc.subruns), runspan))
    check(list(bigc.subruns) == sorted(bigc.subruns, key=lambda k: bigc.subruns[k]["start"]), "superrun.subrun_order", d)
    tc = max(min(t, bigc.end), bigc.start)
    try:
        left, right = bigc.split(t, allow_early_split=d["early"])
    except strax.CannotSplit:
        check(not d["early"] and not gen.admissible(srows, tc), "superrun.split_c_refused", (d, t))
        classes.append("refused")
    else:
        check(gen.arrays_equal(np.concatenate([left.data, right.data]), ref), "superrun.split_c_rows", d)
        check(left.run_id == "_s" and right.run_id == "_s", "superrun.split_c_run_id", d)
        _check_partition(d, runspan, left.end, left, right, "subruns", restore_run_id=False)
        if any(s < left.end < e for s, e in runspan.values()):
            classes.append("c_split_inside_run")
        elif bigc.start < left.end < bigc.end:
            classes.append("c_split_between_runs")

    # ---- rechunker over the superrun-level stream
    tgt = d["target_rows"] * ref.dtype.itemsize / 1e6
    for c in C:
        c.target_size_mb = tgt
    R = strax.Rechunker(rechunk=True, run_id="_s")
    out = []
    orig_split = strax.Chunk.split

    def spy_split(self, t, allow_early_split=False):
        if self.is_superrun and not self.promised_continuity:
            TAGS.append("split-of-superrun-chunk-not-aligned-with-its-subrun-spans")
        return orig_split(self, t, allow_early_split=allow_early_split)

    del TAGS[:]
    strax.Chunk.split = spy_split
    try:
        for c in C:
            out += R.receive(c)
        out += R.flush()
    except Exception as e:
        raise Violation("superrun.rechunker_raised:" + type(e).__name__,
                        "".join(f"[{t}]" for t in sorted(set(TAGS))) + f"{e!r} {d}") from e
    finally:
        strax.Chunk.split = orig_split
    allr = np.concatenate([o.data for o in out]) if out else ref[:0]
    check(gen.arrays_equal(allr, ref), "superrun.rechunk_rows", d)
    check(out[0].start == C[0].start and out[-1].end == C[-1].end, "superrun.rechunk_range", d)
    for o in out:
        check(o.run_id == "_s", "superrun.rechunk_run_id", d)
        check(gen.admissible(srows, o.start) and gen.admissible(srows, o.end), "superrun.rechunk_cut", (d, o.start, o.end))
        for k, v in _spans(o.subruns).items():
            check(runspan[k][0] <= v[0] < v[1] <= runspan[k][1] and o.start <= v[0] and v[1] <= o.end,
                  "superrun.rechunk_span_outside", (d, k, v, (o.start, o.end)))
    for k, (s, e) in runspan.items():
        pieces = [_spans(o.subruns)[k] for o in out if o.subruns and k in o.subruns]
        check(bool(pieces), "superrun.rechunk_lost_subrun", (d, k))
        check(pieces[0][0] == s and pieces[-1][1] == e and all(a[1] == b[0] for a, b in zip(pieces[:-1], pieces[1:])),
              "superrun.rechunk_spans_not_partition", (d, k, pieces, (s, e)))
    if [o.end for o in out] != [c.end for c in C]:
        classes.append("rechunk_changed")
    if TAGS:
        classes.append("split_of_unaligned_superrun_chunk")
    del TAGS[:]
    return dict(nt=nruns >= 2 and len(A) > nruns, classes=sorted(set(classes)))


SUBCHECKS = [
    SubCheck("split", run_split, strategy=st_split, quick=2000, thorough=60000),
    SubCheck("split_exh", run_split, enumerate=enum_split, exhaustive_in=("quick", "thorough")),
    SubCheck("concat", run_concat, strategy=st_concat, quick=1500, thorough=40000),
    SubCheck("merge", run_merge, strategy=st_merge, quick=1500, thorough=30000),
    SubCheck("rechunk", run_rechunk, strategy=st_rechunk, quick=3000, thorough=100000),
    SubCheck("superrun", run_superrun, strategy=st_superrun, quick=1500, thorough=40000),
]
