"""C15 - loading many runs in parallel equals loading them one by one.

A case = list of runs (own tiny plugin set: a source and four derived plugins, data derived from the run) x
number of workers x target(s) x API x plugin-cache / storage state x failing runs x thread schedule.  The multi-run
call (strax.utils.multi_run behind get_array / get_df / make) executes under the controlled scheduler (vf/sched)
with LINE-LEVEL preemption in strax/context.py and strax/utils.py: which worker executes which line of the context's
plugin-resolution code next is a generated value.

Oracles (independent of the code under test):
  * a pure numpy model of the plugin set gives the rows of every (run, target);
  * sequential single-run calls on a second, identical context give the per-run arrays, the exception of every
    failing run and the registry / plugin cache / storage layout "as after one-by-one execution";
  * the multi-run result must be the per-run results in sorted run-id order with the run id attached, failing runs
    omitted (ignore_errors) or their exception propagated, nothing else raised, registry and caches as after the
    sequential execution, the scheduler must see no deadlock / virtual timeout / dead or leftover thread.
"""
import collections
import contextlib
import itertools
import os
import shutil
import sys

import numpy as np
from hypothesis import strategies as st

import strax
from vf.core import Inconclusive, SubCheck, Violation, exception_chain, innermost_strax_frame
from vf.findings import signature
from vf.props.c01 import scratch_dir
from vf.sched import policies
from vf.sched.scheduler import Scheduler

PROPERTY_ID = "C15"
LEVEL = "exploration"
ENV = {"NUMBA_DISABLE_JIT": "1"}
RULE = (
    "A case = 2-8 distinct run ids (varying width, lexicographic order != request order) with 1-3 chunks of 0-3 rows "
    "each x 1-8 workers x one target (str / 1-list; five data types incl. another data kind) or 2-3 same-kind targets "
    "(temporary merge plugin) x get_array / get_df / make x plugin cache cold / warmed by key_for / warmed by a "
    "previous identical request / disabled (use_per_run_defaults) x storage none / DataDirectory with a generated "
    "pre-stored subset (source only or targets) x add_run_id_field / run_id_as_bytes x per-call config option "
    "(temporary context per worker) x failing runs (exception injected in source compute, plugin compute, plugin "
    "setup, or data not available under forbid_creation_of='*') with and without ignore_errors x schedule (random "
    "with persistence, PCT with <=3 change points over line-level steps, explicit choice list, targeted preemption at "
    "the n-th line executed inside a named plugin-resolution function, preemption restricted to the lines of the "
    "cache/registry functions with a switch probability or with generated quanta), all drawn from Hypothesis "
    "(sub-checks single / multi); sub-check coldrace draws only the shapes in which >=2 workers fill the plugin "
    "cache of ONE shared context (3-5 runs, 2-4 workers, target(s) with dependencies, cold cache, fine-grained "
    "schedules); sub-check realthreads (thorough only) enumerates a grid of 240 configurations on real OS threads "
    "with a 1 us switch interval. "
    "Non-trivial = >=2 workers and >=3 runs and >=1 preemption at a line inside the context's plugin-resolution code. "
    "distinct = distinct descriptor hashes."
)
ASSUMPTIONS = [
    "workers run the single-thread processor (what multi_run does by default for every run)",
    "run ids are distinct ASCII strings not starting with '_' (no superruns); with ignore_errors at least one run "
    "succeeds (otherwise there is nothing to concatenate)",
    "preemption points: every line of strax/context.py and strax/utils.py plus the executor / wait operations; "
    "lines of other modules (plugin.py, storage, processors) execute atomically",
    "the width of the run_id column's string dtype is not specified; its kind (unicode / bytes) and values are",
    "realthreads: a failure on real threads counts only when a seeded search (24 schedules) finds a controlled "
    "schedule with the same failure clause (exception type aside), otherwise the case is inconclusive",
    "numba-jitted helpers run as plain Python (NUMBA_DISABLE_JIT=1): they are not the subject of this property",
]
TRACE_FILES = ("strax/context.py", "strax/utils.py")

# functions of strax/context.py that make up plugin resolution / temporary registration / caches
RESOLUTION_FUNCS = (
    "get_iter", "get_components", "check_cache", "_get_plugins", "__get_plugin", "_plugins_are_cached",
    "_plugins_to_cache", "__get_requested_plugins_from_cache", "_context_hash", "register", "key_for",
    "_set_plugin_config", "__add_lineage_to_plugin", "run_defaults", "new_context", "get_source", "stored_dependencies",
    "_get_partial_loader_for", "_target_should_be_saved", "_add_saver", "get_data_key", "is_stored",
)
TARGETED_FUNCS = ("register", "_context_hash", "_plugins_to_cache", "_plugins_are_cached", "__get_plugin",
                  "__get_requested_plugins_from_cache", "_get_plugins", "get_iter", "get_components", "check_cache",
                  "key_for", "multi_run")

# ----------------------------------------------------------------------------------------------------
# plugin set + pure model
# ----------------------------------------------------------------------------------------------------
RT = {}  # token -> dict(chunks={run: [rows per chunk]}, salt={run: int}, fail={run: stage}, calls=Counter)
_COUNTER = itertools.count()
KIND_THINGS = ("src", "pa", "pb", "pc")  # all of data kind "things"; "ev" is another kind
DEPS = {"src": (), "pa": ("src",), "pb": ("src",), "pc": ("pa",), "ev": ("src",)}
FIELD = {"src": "a", "pa": "b", "pb": "c", "pc": "d", "ev": "e"}


class InjectedFailure(Exception):
    pass


def _fail(token, run_id, stage):
    rt = RT[token]
    rt["calls"][(run_id, stage)] += 1
    if rt["fail"].get(run_id) == stage:
        raise InjectedFailure(f"injected failure run={run_id} stage={stage}")


def path_of(targets):
    """Plugins needed to compute the targets from scratch."""
    out = []
    todo = list(targets)
    while todo:
        t = todo.pop()
        if t not in out:
            out.append(t)
            todo += list(DEPS[t])
    return sorted(out)


def build_classes(token):
    tf = list(strax.time_fields)

    def derived(name, dep, kind, fn, keep=None, takes_mul=False):
        class P(strax.Plugin):
            __version__ = "1"
            provides = (name,)
            depends_on = (dep,)
            data_kind = kind
            dtype = tf + [((f"value of {name}", FIELD[name]), np.int64)]

            def setup(self):
                _fail(token, self.run_id, "setup:" + name)

            def compute(self, things):
                _fail(token, self.run_id, name)
                if keep is not None:
                    things = things[keep(things)]
                r = np.zeros(len(things), self.dtype)
                r["time"] = things["time"]
                r["endtime"] = things["endtime"]
                r[FIELD[name]] = fn(self, things)
                return r

        P.__name__ = P.__qualname__ = "C15" + name.capitalize()
        if takes_mul:
            P = strax.takes_config(strax.Option("mul", type=int, default=3, help="factor"))(P)
        return P

    class Src(strax.Plugin):
        __version__ = "1"
        provides = ("src",)
        depends_on = ()
        data_kind = "things"
        dtype = tf + [(("value of src", "a"), np.int64)]
        rechunk_on_save = False

        def setup(self):
            _fail(token, self.run_id, "setup:src")

        def source_finished(self):
            return True

        def is_ready(self, chunk_i):
            return chunk_i < len(RT[token]["chunks"][self.run_id])

        def compute(self, chunk_i):
            _fail(token, self.run_id, f"src:{chunk_i}")
            rows = model_src(RT[token], self.run_id, chunk_i)
            r = np.zeros(len(rows), self.dtype)
            for j, (t, e, a) in enumerate(rows):
                r[j] = (t, e, a)
            return self.chunk(start=100 * chunk_i, end=100 * (chunk_i + 1), data=r)

    Src.__name__ = Src.__qualname__ = "C15Src"
    return [
        Src,
        derived("pa", "src", "things", lambda self, x: self.config["mul"] * x["a"] + 1, takes_mul=True),
        derived("pb", "src", "things", lambda self, x: x["a"] % 7),
        derived("pc", "pa", "things", lambda self, x: x["b"] + 5),
        derived("ev", "src", "ev", lambda self, x: x["a"] // 2, keep=lambda x: x["a"] % 2 == 0),
    ]


def model_src(rt, run, chunk_i):
    n = rt["chunks"][run][chunk_i]
    return [(100 * chunk_i + 10 * j, 100 * chunk_i + 10 * j + 5, 1000 * rt["salt"][run] + 10 * chunk_i + j)
            for j in range(n)]


def model(rt, run, targets, mul):
    """{field: int64 values} of the requested targets of one run (whole run), written from the plugin definitions."""
    rows = [r for c in range(len(rt["chunks"][run])) for r in model_src(rt, run, c)]
    a = np.array([r[2] for r in rows], dtype=np.int64)
    t = np.array([r[0] for r in rows], dtype=np.int64)
    e = np.array([r[1] for r in rows], dtype=np.int64)
    if list(targets) == ["ev"]:
        m = a % 2 == 0
        return {"time": t[m], "endtime": e[m], "e": a[m] // 2}
    vals = {"src": a, "pa": mul * a + 1, "pb": a % 7, "pc": mul * a + 1 + 5}
    out = {"time": t, "endtime": e}
    for x in targets:
        out[FIELD[x]] = vals[x]
    return out


# ----------------------------------------------------------------------------------------------------
# schedules
# ----------------------------------------------------------------------------------------------------
class AtFuncPolicy:
    """Targeted: at the nth line-step executed inside function `func` (any thread) switch to another runnable
    thread (`to` picks which); up to three such points; otherwise never preempt."""

    def __init__(self, points):
        self.points = [dict(p, seen=0, done=False) for p in points]

    def choose(self, s, r, me, why):
        if why == "line" and me in r:
            for p in self.points:
                if not p["done"] and s.where == p["func"]:
                    p["seen"] += 1
                    if p["seen"] == p["nth"]:
                        p["done"] = True
                        others = sorted((t for t in r if t is not me), key=lambda t: t.tid)
                        return others[p["to"] % len(others)]
        return me if me in r else min(r, key=lambda t: t.tid)


CRITICAL_FUNCS = ("_plugins_to_cache", "__get_requested_plugins_from_cache", "_plugins_are_cached", "__get_plugin",
                  "_get_plugins", "register", "_context_hash", "get_iter", "key_for")


class FocusPolicy:
    """Preempt only at lines inside the critical functions (the unsynchronised windows are there; everything else
    executes atomically).  mode 'random': at such a line switch with probability p to a random other thread;
    mode 'quanta': the running thread is switched away from after it executed q_i critical lines (q from a
    generated list, then repeating the last), the next thread is chosen round-robin by tid."""

    def __init__(self, p):
        import random

        self.rng = random.Random(p.get("seed", 0))
        self.mode = p["mode"]
        self.p = p.get("p", 0.2)
        self.quanta = list(p.get("quanta", [10]))
        self.funcs = set(p.get("funcs") or CRITICAL_FUNCS)
        self.used = 0
        self.qi = 0

    def choose(self, s, r, me, why):
        if me not in r:
            return min(r, key=lambda t: t.tid)
        if why != "line" or s.where not in self.funcs:
            return me
        others = sorted((t for t in r if t is not me), key=lambda t: t.tid)
        if self.mode == "random":
            if self.rng.random() < self.p:
                return self.rng.choice(others)
            return me
        self.used += 1
        q = self.quanta[min(self.qi, len(self.quanta) - 1)]
        if self.used >= q:
            self.used = 0
            self.qi += 1
            after = [t for t in others if t.tid > me.tid]
            return after[0] if after else others[0]
        return me


class Recording:
    """Wraps a policy; counts real preemptions by the function (line steps) or operation they happened in."""

    def __init__(self, inner):
        self.inner = inner
        self.at = collections.Counter()

    def choose(self, s, r, me, why):
        nxt = self.inner.choose(s, r, me, why)
        if me in r and nxt is not me:
            self.at[s.where if why == "line" else "op:" + why] += 1
        return nxt


class LineScheduler(Scheduler):
    """Scheduler that remembers in which function the running thread executes its current line."""

    where = None

    def _line_tracer(self, frame, event, arg):
        if event == "line":
            self.where = frame.f_code.co_name
        return Scheduler._line_tracer(self, frame, event, arg)


def make_policy(p):
    if p["kind"] == "at_func":
        return AtFuncPolicy(p["points"])
    if p["kind"] == "focus":
        return FocusPolicy(p)
    return policies.make_policy(p)


def st_schedule(racy=False):
    rnd = st.builds(lambda s, p: dict(kind="random", seed=s, p_stay=p), st.integers(0, 2 ** 20),
                    st.sampled_from([0.9, 0.98, 0.995] if racy else [0.5, 0.9, 0.98, 0.995]))
    foc = st.builds(lambda s, p: dict(kind="focus", mode="random", seed=s, p=p), st.integers(0, 2 ** 20),
                    st.sampled_from([0.1, 0.15, 0.25, 0.4]))
    qua = st.builds(lambda q: dict(kind="focus", mode="quanta", quanta=q),
                    st.lists(st.integers(1, 40), min_size=1, max_size=6))
    pct = st.builds(lambda s, d, k: dict(kind="pct", seed=s, depth=d, k=k), st.integers(0, 2 ** 20),
                    st.integers(1, 4), st.sampled_from([50, 400, 2000, 8000]))
    cho = st.builds(lambda c: dict(kind="choices", choices=c), st.lists(st.integers(0, 3), max_size=40))
    point = st.builds(lambda f, n, to: dict(func=f, nth=n, to=to), st.sampled_from(TARGETED_FUNCS),
                      st.integers(1, 30), st.integers(0, 3))
    at = st.builds(lambda pts: dict(kind="at_func", points=pts), st.lists(point, min_size=1, max_size=3))
    if racy:
        return st.one_of(rnd, rnd, foc, foc, pct, at, qua)
    return st.one_of(rnd, pct, pct, cho, at, at, foc, qua)


# ----------------------------------------------------------------------------------------------------
# generator
# ----------------------------------------------------------------------------------------------------
RUN_ID_POOL = ["0", "1", "2", "10", "11", "007", "100", "a", "b7", "run_x", "Z", "20240101", "9", "r", "99", "1b"]


@st.composite
def st_case(draw, multi, racy=False):
    """racy=True: the shapes in which workers resolve plugins on ONE shared context with a cache that still has to
    be filled (targets with dependencies, >=2 workers, >=3 runs, no per-call option) under fine-grained schedules."""
    if racy:
        return draw(st_racy_case())
    n = draw(st.integers(2, 8))
    runs = draw(st.permutations(RUN_ID_POOL))[:n]
    salts = draw(st.permutations(list(range(1, 40))))[:n]
    chunks = [draw(st.lists(st.integers(0, 3), min_size=1, max_size=draw(st.sampled_from([1, 2, 2, 3]))))
              for _ in range(n)]
    workers = draw(st.sampled_from([1, 1, 2, 2, 3, 3, 4, 5, 6, 8]))
    if multi:
        targets = draw(st.permutations(list(KIND_THINGS)))[:draw(st.sampled_from([2, 2, 3]))]
        as_str = False
    else:
        targets = [draw(st.sampled_from(["src", "pa", "pa", "pb", "pc", "pc", "ev"]))]
        as_str = draw(st.booleans())
    api = draw(st.sampled_from(["get_array", "get_array", "get_df", "make"]))
    storage = draw(st.booleans())
    ignore = draw(st.booleans())
    forbid = storage and draw(st.integers(0, 5)) == 0
    # failing runs
    fail = {}
    # (up to all runs but one fail: more failures than scheduling slots, 2 * max_workers, is a class of its own)
    nfail = draw(st.sampled_from([0, 0, 1, 1, 2, 3, n - 2, n - 1]))
    nfail = max(0, min(nfail, n - 1))
    order = draw(st.permutations(list(range(n))))
    for i in order[:nfail]:
        if forbid:
            fail[runs[i]] = "unavailable"
            continue
        stages = []
        for p in path_of(targets):
            stages += [p if p != "src" else "src:0", "setup:" + p]
        if len(chunks[i]) >= 2:
            stages.append(f"src:{len(chunks[i]) - 1}")
        fail[runs[i]] = draw(st.sampled_from(sorted(stages)))
    # pre-stored data
    prestore = {}
    if storage:
        for i in range(n):
            if runs[i] in fail:
                continue
            if forbid:
                prestore[runs[i]] = "targets"
            else:
                w = draw(st.sampled_from(["none", "none", "src", "targets"]))
                if w != "none":
                    prestore[runs[i]] = w
    ok_runs = [r for r in runs if r not in fail]
    warm = draw(st.sampled_from(["cold", "cold", "keys", "request", "nocache"]))
    return dict(
        runs=runs, salts=salts, chunks=chunks, workers=workers, targets=list(targets), as_str=as_str, api=api,
        storage=storage, forbid=forbid, prestore=prestore, fail=fail, ignore_errors=ignore,
        add_run_id_field=draw(st.sampled_from([None, None, True, False])), run_id_as_bytes=draw(st.booleans()),
        warm=warm, warm_run=draw(st.sampled_from(ok_runs)),
        opt_kw=draw(st.integers(0, 4)) == 0, mul0=draw(st.sampled_from([3, 4])), mul=draw(st.sampled_from([2, 5])),
        policy=draw(st_schedule()),
    )


@st.composite
def st_racy_case(draw):
    n = draw(st.integers(3, 5))
    runs = draw(st.permutations(RUN_ID_POOL))[:n]
    salts = draw(st.permutations(list(range(1, 40))))[:n]
    chunks = [draw(st.lists(st.integers(0, 2), min_size=1, max_size=2)) for _ in range(n)]
    if draw(st.integers(0, 2)) == 0:
        targets = draw(st.permutations(list(KIND_THINGS)))[:2]
    else:
        targets = [draw(st.sampled_from(["pa", "pb", "pc", "pc", "ev"]))]
    fail = {}
    if draw(st.integers(0, 3)) == 0:
        fail[runs[draw(st.integers(0, n - 1))]] = draw(st.sampled_from(
            ["src:0", "setup:src", "setup:" + targets[0]] + [t for t in targets if t != "src"]))
    ok_runs = [r for r in runs if r not in fail]
    return dict(
        runs=runs, salts=salts, chunks=chunks, workers=draw(st.sampled_from([2, 2, 3, 3, 4])), targets=list(targets),
        as_str=False, api=draw(st.sampled_from(["get_array", "get_array", "get_df", "make"])), storage=False,
        forbid=False, prestore={}, fail=fail, ignore_errors=draw(st.booleans()), add_run_id_field=None,
        run_id_as_bytes=draw(st.booleans()), warm=draw(st.sampled_from(["cold", "cold", "cold", "keys"])),
        warm_run=draw(st.sampled_from(ok_runs)), opt_kw=False, mul0=3, mul=2, policy=draw(st_schedule(racy=True)),
    )


# ----------------------------------------------------------------------------------------------------
# execution
# ----------------------------------------------------------------------------------------------------
class Env:
    """Everything belonging to one case: runtime table, plugin classes, two storage directories."""

    def __init__(self, d):
        self.d = d
        self.token = f"c15-{os.getpid()}-{next(_COUNTER)}"
        self.rt = RT[self.token] = dict(
            chunks=dict(zip(d["runs"], d["chunks"])), salt=dict(zip(d["runs"], d["salts"])), fail={},
            calls=collections.Counter())
        self.classes = build_classes(self.token)
        self.dirs = []
        self.mul = d["mul"] if d["opt_kw"] else d["mul0"]
        self.targets_arg = d["targets"][0] if d["as_str"] else list(d["targets"])

    def close(self):
        RT.pop(self.token, None)
        for p in self.dirs:
            shutil.rmtree(p, ignore_errors=True)

    def new_dir(self):
        p = scratch_dir("c15")
        self.dirs.append(p)
        return p

    def context(self, path, plain=False, **kw):
        d = self.d
        opts = dict(allow_multiprocess=False, timeout=60)
        if not plain:
            if d["warm"] == "nocache":
                opts["use_per_run_defaults"] = True
            if d["forbid"]:
                opts["forbid_creation_of"] = "*"
        opts.update(kw)
        storage = [strax.DataDirectory(path)] if path else []
        return strax.Context(storage=storage, register=list(self.classes), config=dict(mul=d["mul0"]), **opts)

    def call_kw(self):
        kw = dict(processor="single_thread", progress_bar=False)
        if self.d["opt_kw"]:
            kw["config"] = dict(mul=self.d["mul"])
        return kw

    def prestore(self, path):
        if not self.d["prestore"]:
            return
        ctx = strax.Context(storage=[strax.DataDirectory(path)], register=list(self.classes),
                            config=dict(mul=self.mul), allow_multiprocess=False)
        for run, what in sorted(self.d["prestore"].items()):
            for t in (["src"] if what == "src" else self.d["targets"]):
                ctx.make(run, t, processor="single_thread", progress_bar=False)

    def warm_up(self, ctx):
        d = self.d
        if d["warm"] == "keys":
            for t in d["targets"]:
                ctx.key_for(d["warm_run"], t)
        elif d["warm"] == "request":
            ctx.get_array(d["warm_run"], self.targets_arg, **self.call_kw())

    def multi_call(self, ctx):
        d = self.d
        kw = self.call_kw()
        kw.update(max_workers=d["workers"], multi_run_progress_bar=False)
        if d["add_run_id_field"] is not None:
            kw["add_run_id_field"] = d["add_run_id_field"]
        if d["run_id_as_bytes"]:
            kw["run_id_as_bytes"] = True
        if d["ignore_errors"]:
            kw["ignore_errors"] = True
        return getattr(ctx, d["api"])(list(d["runs"]), self.targets_arg, **kw)


def state_of(ctx):
    """Registry and plugin cache of a context in comparable form."""
    reg = {k: v for k, v in ctx._plugin_class_registry.items()}
    cache = None
    if ctx._fixed_plugin_cache is not None:
        cache = {h: {t: (type(p).__name__, strax.deterministic_hash(p.lineage)) for t, p in c.items()}
                 for h, c in ctx._fixed_plugin_cache.items()}
    return reg, cache, sorted(ctx._run_defaults_cache)


def stored_keys(path, runs):
    """Names of finished data directories belonging to the given runs."""
    out = []
    for x in sorted(os.listdir(path)) if path and os.path.isdir(path) else []:
        if x.endswith("_temp"):
            continue
        if x.split("-")[0] in runs:
            out.append(x)
    return out


def check(cond, clause, detail):
    if not cond:
        raise Violation(clause, detail if isinstance(detail, str) else repr(detail))


def same_exception(exc, ref):
    return type(exc).__name__ == ref[0] and str(exc) == ref[1]


def frame_of(exc):
    for e in exception_chain(exc):
        fr = innermost_strax_frame(e.__traceback__)
        if fr:
            return fr
    return "?"


def sequential(E):
    """One-by-one execution on its own context: per-run result or exception, final context state."""
    d = E.d
    path = E.new_dir() if d["storage"] else None
    if path:
        E.prestore(path)
    E.rt["fail"] = dict(d["fail"]) if not d["forbid"] else {}
    ctx = E.context(path)
    E.warm_up(ctx)
    per_run = {}
    errors = {}
    temp_after_failure = False  # a failing single-run call itself leaves its temporary merge plugin registered
    for r in sorted(d["runs"]):
        try:
            # (multi-run make is documented as get_array per run with the result thrown away; single-run make
            # would additionally resolve the plugins for its is_stored shortcut)
            per_run[r] = ctx.get_array(r, E.targets_arg, **E.call_kw())
        except Exception as e:  # noqa
            errors[r] = (type(e).__name__, str(e))
            if any(k.startswith("_temp") for k in ctx._plugin_class_registry):
                temp_after_failure = True
            if not isinstance(e, (InjectedFailure, strax.DataNotAvailable)):
                raise Violation("sequential.unexpected_exception:" + type(e).__name__,
                                f"{e!r} at {frame_of(e)} run {r} {d}") from e
    return ctx, path, per_run, errors, temp_after_failure


def compare_to_model(E, run, arr, what):
    d = E.d
    m = model(E.rt, run, d["targets"], E.mul)
    check(set(arr.dtype.names) == set(m), what + ".fields", (arr.dtype.names, sorted(m), run, d))
    for k, v in m.items():
        check(arr[k].dtype == np.int64 and np.array_equal(arr[k], v), what + ".values_differ_from_model",
              (run, k, arr[k].tolist(), v.tolist(), d))


def run_id_values(col):
    return [x.decode("utf-8") if isinstance(x, bytes) else str(x) for x in col.tolist()]


def check_array(E, res, exp_runs, per_run, what="result"):
    d = E.d
    add = d["add_run_id_field"] is not False
    check(isinstance(res, np.ndarray), what + ".not_an_array", (type(res).__name__, d))
    exp = np.concatenate([per_run[r] for r in exp_runs])
    want_ids = [r for r in exp_runs for _ in range(len(per_run[r]))]
    names = list(exp.dtype.names) + (["run_id"] if add else [])
    check(sorted(res.dtype.names) == sorted(names), what + ".fields", (res.dtype.names, names, d))
    if len(res) != len(exp):
        got_ids = run_id_values(res["run_id"]) if add else None
        raise Violation(what + ".length", f"{len(res)} rows, expected {len(exp)} (runs {exp_runs}); run ids got "
                        f"{got_ids} {d}")
    if add:
        col = res["run_id"]
        kind = "S" if d["run_id_as_bytes"] else "U"
        check(col.dtype.kind == kind, what + ".run_id_kind", (col.dtype, kind, d))
        got = run_id_values(col)
        if got != want_ids:
            clause = ".run_order" if sorted(got) == sorted(want_ids) else ".run_id_values"
            raise Violation(what + clause, f"run_id column {got} expected {want_ids} {d}")
    for k in exp.dtype.names:
        check(res[k].dtype == exp[k].dtype, what + ".field_dtype", (k, res[k].dtype, exp[k].dtype, d))
        if not np.array_equal(res[k], exp[k]):
            raise Violation(what + ".rows_differ", f"field {k}: {res[k].tolist()} expected {exp[k].tolist()} "
                            f"(runs {exp_runs}) {d}")


def check_df(E, res, exp_runs, per_run):
    import pandas as pd

    d = E.d
    check(isinstance(res, pd.DataFrame), "result.not_a_dataframe", (type(res).__name__, d))
    add = d["add_run_id_field"] is not False
    exp = np.concatenate([per_run[r] for r in exp_runs])
    names = list(exp.dtype.names) + (["run_id"] if add else [])
    check(sorted(res.columns) == sorted(names), "result.fields", (list(res.columns), names, d))
    check(len(res) == len(exp), "result.length", (len(res), len(exp), d))
    if add:
        want_ids = [r for r in exp_runs for _ in range(len(per_run[r]))]
        vals = res["run_id"].tolist()
        check(all(isinstance(x, bytes if d["run_id_as_bytes"] else str) for x in vals), "result.run_id_kind",
              (vals[:3], d))
        got = [x.decode() if isinstance(x, bytes) else x for x in vals]
        if got != want_ids:
            clause = ".run_order" if sorted(got) == sorted(want_ids) else ".run_id_values"
            raise Violation("result" + clause, f"run_id column {got} expected {want_ids} {d}")
    for k in exp.dtype.names:
        if res[k].tolist() != exp[k].tolist():
            raise Violation("result.rows_differ", f"column {k}: {res[k].tolist()} expected {exp[k].tolist()} {d}")


def spy_on_workers(ctx):
    """Record the exception of every single-run call made through ctx.get_array (that is what multi_run submits)."""
    seen = []
    orig = ctx.get_array

    def get_array(run_id, *a, **kw):
        try:
            return orig(run_id, *a, **kw)
        except Exception as e:  # noqa
            ids = strax.to_str_tuple(run_id)
            if len(ids) == 1:
                r = ids[0]
                seen.append((r.decode() if isinstance(r, bytes) else str(r), e))
            raise

    ctx.get_array = get_array
    return seen


@contextlib.contextmanager
def controlled_locks(ctx):
    """A (future) repair of strax may guard the context's shared state with threading locks.  A real lock held by
    a thread that the scheduler has preempted would block the whole process, so for the duration of a controlled
    run every lock found at module level of strax.context / strax.utils or on the context instance is replaced by
    the scheduler's cooperative lock, and `threading` as seen by those modules is the scheduler's shim."""
    import threading

    import strax.context as sc
    import strax.utils as su
    from vf.sched import scheduler as vs

    real = (type(threading.Lock()), type(threading.RLock()))
    saved = []
    for holder in (sc, su, ctx):
        for name, val in list(vars(holder).items()):
            if isinstance(val, real):
                saved.append((holder, name, val))
                setattr(holder, name, vs.RLock())
    for mod in (sc, su):
        if getattr(mod, "threading", None) is threading:
            saved.append((mod, "threading", threading))
            mod.threading = vs.SHIM_THREADING
    try:
        yield
    finally:
        for holder, name, val in saved:
            setattr(holder, name, val)


def controlled(E, policy_desc, max_steps=600000):
    """Execute the multi-run call on a fresh context under the controlled scheduler."""
    d = E.d
    path = E.new_dir() if d["storage"] else None
    if path:
        E.prestore(path)
    E.rt["fail"] = dict(d["fail"]) if not d["forbid"] else {}
    ctx = E.context(path)
    E.warm_up(ctx)
    rec = Recording(make_policy(policy_desc))
    S = LineScheduler(rec, max_steps=max_steps, trace_files=TRACE_FILES)
    S.worker_errors = spy_on_workers(ctx)
    with S.installed(), controlled_locks(ctx):
        res, exc = S.run(lambda: E.multi_call(ctx))
    return ctx, path, res, exc, S, rec


def real_threads(E, switch_interval=1e-6):
    d = E.d
    path = E.new_dir() if d["storage"] else None
    if path:
        E.prestore(path)
    E.rt["fail"] = dict(d["fail"]) if not d["forbid"] else {}
    ctx = E.context(path)
    E.warm_up(ctx)
    worker_errors = spy_on_workers(ctx)
    old = sys.getswitchinterval()
    sys.setswitchinterval(switch_interval)
    res = exc = None
    try:
        res = E.multi_call(ctx)
    except Exception as e:  # noqa
        exc = e
    finally:
        sys.setswitchinterval(old)
    return ctx, path, res, exc, worker_errors


def verdict(E, seq, ctx, path, res, exc, S=None, worker_errors=()):
    """Compare one parallel execution with the sequential one.  Returns classes."""
    d = E.d
    seq_ctx, seq_path, per_run, errors, temp_after_failure = seq
    runs_sorted = sorted(d["runs"])
    failing = sorted(errors)
    ok = [r for r in runs_sorted if r not in errors]
    cl = []
    if S is not None:
        if S.deadlock:
            raise Violation("parallel.deadlock", f"{S.deadlock} {d}")
        if S.timeouts_fired:
            raise Violation("parallel.hang_virtual_timeout", f"{S.timeout_events} {d}")
        if S.step_limit_hit:
            raise Violation("parallel.step_limit", f"{S.report()} {d}")
    # every exception a worker saw must be the one its run raises when executed alone
    for r, e in worker_errors:
        if not (r in errors and same_exception(e, errors[r])):
            raise Violation("parallel.unexpected_exception:" + type(e).__name__,
                            f"{e!r} raised at {frame_of(e)} in the worker of run {r} [{len(d['targets'])} targets, "
                            f"{d['workers']} workers, {'ignored' if d['ignore_errors'] else 'propagated'}] {d}") from e
    propagated = False
    if exc is not None:
        if failing and not d["ignore_errors"] and any(same_exception(exc, errors[r]) for r in failing):
            propagated = True
            cl.append("exception_propagated")
        elif failing and not d["ignore_errors"] and isinstance(exc, (InjectedFailure, strax.DataNotAvailable)):
            raise Violation("parallel.wrong_exception_propagated", f"{exc!r}; sequential: {errors} {d}") from exc
        else:
            raise Violation("parallel.unexpected_exception:" + type(exc).__name__,
                            f"{exc!r} raised at {frame_of(exc)} [{len(d['targets'])} targets, {d['workers']} "
                            f"workers] {d}") from exc
    elif failing and not d["ignore_errors"]:
        raise Violation("parallel.failing_run_not_raised", f"runs {failing} fail one by one ({errors}) but the "
                        f"multi-run call returned {type(res).__name__} {d}")
    if S is not None:
        rep = S.report()
        dead = [(t.name, repr(t.exc)) for t in S.threads if t.exc is not None]
        check(not dead, "parallel.thread_died", (dead, d))
        check(not rep["leftover"], "parallel.threads_left_alive", (rep["leftover"], d))

    # ---- the data
    if not propagated:
        for r in ok:
            compare_to_model(E, r, per_run[r], "sequential")
        if d["api"] == "make":
            check(res is None, "make.returned_something", (type(res).__name__, d))
        elif d["api"] == "get_array":
            check_array(E, res, ok, per_run)
        else:
            check_df(E, res, ok, per_run)
        if failing:
            cl.append("failing_runs_omitted")
        if d["storage"]:
            a, b = stored_keys(path, ok), stored_keys(seq_path, ok)
            check(a == b, "storage.layout_differs_from_sequential", (a, b, d))
            if a:
                cl.append("stored_as_sequential")
            # everything the sequential execution stored for the target(s) must load and equal the model
            rd = E.context(path, plain=True, forbid_creation_of="*")
            rd.set_config(dict(mul=E.mul))
            rs = E.context(seq_path, plain=True, forbid_creation_of="*")
            rs.set_config(dict(mul=E.mul))
            for r in ok:
                if all(rs.is_stored(r, t) for t in d["targets"]):
                    try:
                        back = rd.get_array(r, E.targets_arg, processor="single_thread", progress_bar=False)
                    except Exception as e:  # noqa
                        raise Violation("storage.reload_failed:" + type(e).__name__, f"{e!r} run {r} {d}") from e
                    compare_to_model(E, r, back, "storage.reload")
                    cl.append("reloaded")

    # ---- registry and caches
    reg, cache, rdc = state_of(ctx)
    sreg, scache, srdc = state_of(seq_ctx)
    if temp_after_failure:
        # (single-run behaviour, not a matter of parallelism: a call that fails inside get_components returns before
        # get_iter removes its temporary merge plugin; the next call removes it)
        reg = {k: v for k, v in reg.items() if not k.startswith("_temp")}
        sreg = {k: v for k, v in sreg.items() if not k.startswith("_temp")}
        cl.append("temp_plugin_left_by_failing_single_run")
    temp = [k for k in reg if k.startswith("_temp")]
    check(not temp, "state.temp_plugin_left_in_registry", (temp, d))
    check(reg == sreg, "state.registry_differs_from_sequential", (sorted(reg), sorted(sreg), d))
    if not propagated:
        check(cache == scache, "state.plugin_cache_differs_from_sequential", (cache, scache, d))
        check(rdc == srdc, "state.run_defaults_cache_differs", (rdc, srdc, d))
    elif cache is not None:
        # a propagated failure may leave runs unprocessed: what is cached must still be valid
        check(scache is not None and set(cache) <= set(scache), "state.plugin_cache_invalid", (cache, scache, d))
        for h, c in cache.items():
            for t, v in c.items():
                check(scache[h].get(t) == v, "state.plugin_cache_invalid", (t, v, scache[h].get(t), d))
    return sorted(set(cl))


def classes_of(d, rec=None, S=None):
    cl = [d["api"], f"runs{len(d['runs'])}", f"workers{d['workers']}", "warm:" + d["warm"],
          "storage" if d["storage"] else "no_storage", "targets%d" % len(d["targets"]),
          ("policy:" + d["policy"]["kind"] + d["policy"].get("mode", "")) if "policy" in d else "real_threads"]
    if d["fail"]:
        cl.append("fail+ignore" if d["ignore_errors"] else "fail+raise")
        cl += ["fail@" + s.split(":")[0] for s in set(d["fail"].values())]
        if d["ignore_errors"] and len(d["fail"]) >= 2 * d["workers"]:
            cl.append("ignored_failures>=2*workers")  # more ignored failures than multi_run has scheduling slots
    if d["forbid"]:
        cl.append("forbid_creation")
    if d["prestore"]:
        cl.append("prestored_subset" if len(d["prestore"]) < len(d["runs"]) else "prestored_all")
    if d["opt_kw"]:
        cl.append("per_call_option")
    if d["run_id_as_bytes"]:
        cl.append("run_id_as_bytes")
    if d["add_run_id_field"] is False:
        cl.append("no_run_id_field")
    if sorted(d["runs"]) != list(d["runs"]):
        cl.append("request_order_unsorted")
    if d["targets"] == ["ev"]:
        cl.append("other_data_kind")
    if rec is not None:
        res_pre = sum(v for k, v in rec.at.items() if k in RESOLUTION_FUNCS)
        if res_pre:
            cl.append("preempted_in_resolution")
        for k in ("register", "_context_hash", "_plugins_to_cache", "__get_plugin", "get_iter", "multi_run"):
            if rec.at.get(k):
                cl.append("preempt@" + k)
        if S is not None and S.preemptions == 0:
            cl.append("no_preemption")
    return cl


def run_case(d):
    E = Env(d)
    try:
        seq = sequential(E)
        ctx, path, res, exc, S, rec = controlled(E, d["policy"])
        cl = verdict(E, seq, ctx, path, res, exc, S, S.worker_errors)
        in_resolution = sum(v for k, v in rec.at.items() if k in RESOLUTION_FUNCS)
        nt = d["workers"] >= 2 and len(d["runs"]) >= 3 and in_resolution >= 1
        return dict(nt=nt, classes=classes_of(d, rec, S) + cl)
    finally:
        E.close()


# ----------------------------------------------------------------------------------------------------
# real-thread supplement (thorough only)
# ----------------------------------------------------------------------------------------------------
def enum_real(tier, seed):
    if tier != "thorough":
        return
    k = 0
    for rep in range(3):
        for n, workers in ((4, 2), (4, 4), (8, 3), (8, 8)):
            for targets in (["pa"], ["pc"], ["pa", "pb"], ["pc", "src", "pb"]):
                for api, storage, warm, nfail in (("get_array", False, "cold", 0), ("get_array", False, "request", 1),
                                                 ("get_df", True, "cold", 0), ("make", True, "keys", 1),
                                                 ("get_array", True, "nocache", 2)):
                    k += 1
                    runs = [RUN_ID_POOL[(3 * i + k + seed) % len(RUN_ID_POOL)] for i in range(n)]
                    if len(set(runs)) < n:
                        runs = RUN_ID_POOL[:n]
                    fail = {runs[(k + j) % n]: ("src:0", targets[0], "setup:" + targets[0])[(k + j) % 3]
                            for j in range(nfail)}
                    ok = [r for r in runs if r not in fail]
                    yield dict(
                        runs=runs, salts=[(7 * i + k) % 37 + 1 for i in range(n)],
                        chunks=[[(i + k) % 4, (i * k) % 3][: 1 + (i + k) % 2] for i in range(n)], workers=workers,
                        targets=targets, as_str=False, api=api, storage=storage, forbid=False,
                        prestore={ok[0]: "src"} if storage and k % 2 else {}, fail=fail,
                        ignore_errors=bool(k % 2), add_run_id_field=None, run_id_as_bytes=bool(k % 3 == 0), warm=warm,
                        warm_run=ok[-1], opt_kw=False, mul0=3, mul=2, search_seed=seed * 1000 + k, rep=rep)


def run_real(d):
    E = Env(d)
    try:
        seq = sequential(E)
        ctx, path, res, exc, werr = real_threads(E)
        try:
            cl = verdict(E, seq, ctx, path, res, exc, None, werr)
            return dict(nt=d["workers"] >= 2 and len(d["runs"]) >= 3, classes=classes_of(d) + cl)
        except Violation as v:
            clause = v.clause
            real_msg = str(v)[:300]
        # a failure on real threads counts only if a controlled schedule reproduces the same clause
        for i in range(24):
            pol = (dict(kind="random", seed=d["search_seed"] * 100 + i, p_stay=(0.9, 0.98, 0.5)[i % 3]) if i % 2 else
                   dict(kind="pct", seed=d["search_seed"] * 100 + i, depth=4, k=(400, 2000, 8000)[i % 3]))
            ctx, path, res, exc, S, rec = controlled(E, pol)
            try:
                verdict(E, seq, ctx, path, res, exc, S, S.worker_errors)
            except Violation as v2:
                # same failure family (the exception type may differ: RuntimeError / KeyError are two faces of one race)
                if v2.clause.split(":")[0] == clause.split(":")[0]:
                    raise Violation(v2.clause, f"[real threads: {real_msg}] reproduced under controlled schedule "
                                    f"{pol}: {v2.detail}") from v2
        raise Inconclusive(f"real-thread failure {clause} not reproduced under 24 controlled schedules")
    finally:
        E.close()


# ----------------------------------------------------------------------------------------------------
# ----------------------------------------------------------------------------------------------------
# recorded findings
# ----------------------------------------------------------------------------------------------------
def _shared_context_race(desc, bucket, message):
    """Several workers resolve plugins on the one shared context and one of them dies of a concurrent-mutation error
    raised inside strax/context.py."""
    return (desc.get("workers", 1) >= 2 and not desc.get("opt_kw")
            and bucket.startswith("clause:parallel.unexpected_exception:") and "raised at strax/context.py:" in message)


@signature("F5_multi_target_workers_race_on_registry_and_plugin_cache")
def _sig_f5(sub, desc, bucket, message):
    """>=2 same-kind targets: every worker registers the temporary merge plugin in the shared registry and deletes
    all _temp* entries again, and inserts into the shared plugin cache -> RuntimeError 'dictionary changed size during
    iteration' (registry / cache iterated meanwhile) or KeyError '... _temp_<hash>' (entry deleted by another worker)."""
    if not (_shared_context_race(desc, bucket, message) and len(desc.get("targets", ())) >= 2):
        return False
    if bucket.endswith(":RuntimeError"):
        return "dictionary changed size during iteration" in message
    if bucket.endswith(":KeyError"):
        return "_temp_" in message
    return False


@signature("F1530_cold_plugin_cache_iterated_while_another_worker_fills_it")
def _sig_f1530(sub, desc, bucket, message):
    """One target with dependencies, plugin cache still empty: a worker iterates _fixed_plugin_cache[hash] in
    __get_requested_plugins_from_cache while another worker inserts the next plugin."""
    return (_shared_context_race(desc, bucket, message) and len(desc.get("targets", ())) == 1
            and desc["targets"][0] != "src" and desc.get("warm") == "cold" and bucket.endswith(":RuntimeError")
            and "dictionary changed size during iteration" in message
            and "raised at strax/context.py:__get_requested_plugins_from_cache" in message)


SUBCHECKS = [
    SubCheck("single", run_case, strategy=lambda: st_case(multi=False), quick=320, thorough=14000, min_per_shard=5,
             required_classes=("preempted_in_resolution", "failing_runs_omitted", "exception_propagated",
                               "ignored_failures>=2*workers")),
    SubCheck("multi", run_case, strategy=lambda: st_case(multi=True), quick=200, thorough=8000, min_per_shard=5,
             required_classes=("preempted_in_resolution",)),
    SubCheck("coldrace", run_case, strategy=lambda: st_case(multi=False, racy=True), quick=200, thorough=8000,
             min_per_shard=5, required_classes=("preempt@_plugins_to_cache",)),
    SubCheck("realthreads", run_real, enumerate=enum_real),
]
