"""C18 - hit finding and data reduction keep exactly the samples they should.

Oracles: the naive reference `vf.ref.c18_pulses_ref` (hit finder with every documented field, declarative
record links, sample-by-sample reduction mask, baseline / integrate formulas), the generator's own ground truth
(which fragments of which pulse are present) for record_links, a round trip (baselined data + int(stored
baseline) gives the raw samples back) and the physical integral (area == sum(baseline - raw) to rounding).
"""
import itertools

import numpy as np
from hypothesis import strategies as st

import strax
from vf.core import SubCheck, Violation
from vf.ref import c18_pulses_ref as ref

PROPERTY_ID = "C18"
LEVEL = "exploration"
RULE = (
    "Record sets are built by construction from pulse descriptors: 1-3 channels (ids from 0..3, fixed dt in "
    "{1,2,10} per channel), 1-3 non-overlapping pulses per channel, each cut into 1-3 fragments of record length "
    "2-8 (last fragment shorter, zero padded), integer waveforms over {0,1,2,5,-1,3}, fractional baselines, "
    "per-record rms, optionally some fragments removed (documented 'incomplete set'); thresholds scalar / "
    "per-channel list, tuple or array (int and float) / min_height_over_noise (scalar or per channel), all > 0; "
    "extensions 0..record length.  Sub-check exh enumerates every pulse of n<=6 (quick) / n<=9 (thorough) "
    "samples over the alphabet {0,1,2}, every record length <= min(n+1, 8) that gives 1 or 2 (thorough: up to 3) fragments, "
    "thresholds {1,2}, every subset of present fragments, and every (left, right) extension pair in "
    "0..record length.  A case is non-trivial when a hit touches a fragment boundary, a record has >= 2 hits, "
    "per-channel thresholds differ (hits, cut, exh); when >= 2 channels interleave multi-fragment pulses or a "
    "fragment is missing (links); for baseline a multi-fragment pulse or >= 2 pulses in a channel; for "
    "integrate a fractional baseline or a bit shift; for zero_oob non-zero samples beyond the pulse end.  "
    "distinct = distinct descriptor hashes."
)
ASSUMPTIONS = [
    "records sorted by time, pulses of one channel do not overlap, one dt per channel, record_i / pulse_length / "
    "length consistent with the fragmenting, samples beyond `length` are zero (except for zero_out_of_bounds)",
    "thresholds > 0 (min_amplitude > 0, min_height_over_noise >= 0), finite baseline_rms, per-channel arrays "
    "cover every channel present, baselines >= 0",
    "extensions are integers in 0..samples_per_record (so a hit reaches at most the neighbouring fragment)",
    "baseline_samples <= length of the first fragment of every pulse; raw ADC values >= 0 and < 2**14",
    "float fields: area / height / threshold of hits and the stored baseline are compared bit-exactly against "
    "the float32 rounding of the exact value; baseline_rms with rtol 1e-6 (order of summation is unspecified)",
]

ALPHABET = [0, 1, 2, 5, -1, 3]
BASELINES = [0.0, 0.25, 100.5, 16000.75, 3.125]
RMS = [0.0, 0.5, 1.5, 2.25]
T0S = [0, 17, 1_600_000_000_000_000_000]


def check(cond, clause, detail=""):
    if not cond:
        raise Violation(clause, detail if isinstance(detail, str) else repr(detail))


# ------------------------------------------------------------------------------------------------
# generator: pulses -> records
# ------------------------------------------------------------------------------------------------
@st.composite
def st_wave(draw, spr, max_frag=3):
    nfrag = draw(st.sampled_from([f for f in [1, 1, 2, 2, 3] if f <= max_frag]))
    last = draw(st.integers(1, spr))
    n = (nfrag - 1) * spr + last
    style = draw(st.sampled_from(["any", "any", "any", "high", "sparse"]))
    if style == "high":
        alpha = [1, 2, 5, 3, 2, 0]
    elif style == "sparse":
        alpha = [0, 0, 0, -1, 1, 5]
    else:
        alpha = ALPHABET
    return draw(st.lists(st.sampled_from(alpha), min_size=n, max_size=n))


@st.composite
def st_pulses(draw, min_spr=2, max_spr=8):
    spr = draw(st.sampled_from([s for s in [4, 5, 6, 8, 4, 5, 3, 2, 7] if min_spr <= s <= max_spr]))
    nch = draw(st.sampled_from([1, 2, 2, 3]))
    ids = draw(st.permutations([0, 1, 2, 3]))[:nch]
    chans = []
    for c in ids:
        npulse = draw(st.sampled_from([1, 1, 2, 3]))
        pulses = []
        for _ in range(npulse):
            w = draw(st_wave(spr))
            nfrag = -(-len(w) // spr)
            pulses.append(dict(gap=draw(st.integers(0, 3)), w=w, bl=draw(st.integers(0, len(BASELINES) - 1)),
                               rms=draw(st.lists(st.integers(0, len(RMS) - 1), min_size=nfrag, max_size=nfrag))))
        chans.append(dict(ch=c, dt=draw(st.sampled_from([1, 1, 2, 10])), off=draw(st.integers(0, 4)), pulses=pulses))
    drop = draw(st.one_of(st.just([]), st.just([]), st.just([]),
                          st.lists(st.integers(0, 30), min_size=1, max_size=3)))
    return dict(spr=spr, t0=draw(st.integers(0, len(T0S) - 1)), chans=chans, drop=drop)


def build_records(d, raw=False):
    """-> (records sorted by time, truth) with truth[i] = (pulse id, fragment number) of record i."""
    spr = d["spr"]
    rows = []
    pid = 0
    for c in d["chans"]:
        dt = c["dt"]
        t = T0S[d["t0"]] + c["off"] * dt
        for p in c["pulses"]:
            w = p["w"]
            n = len(w)
            t += p["gap"] * dt
            nfrag = -(-n // spr)
            for k in range(nfrag):
                seg = w[k * spr: (k + 1) * spr]
                rows.append(dict(time=t + k * spr * dt, length=len(seg), dt=dt, channel=c["ch"], pulse_length=n,
                                 record_i=k, data=seg, baseline=BASELINES[p.get("bl", 0)],
                                 rms=RMS[p["rms"][k]] if "rms" in p else 0.0, pid=pid, shift=p.get("shift", 0)))
            t += n * dt
            pid += 1
    rows.sort(key=lambda r: r["time"])  # stable: equal times keep the drawn channel order
    dropped = sorted({i % len(rows) for i in d.get("drop", [])}) if rows else []
    if len(dropped) < len(rows):
        rows = [r for i, r in enumerate(rows) if i not in dropped]
    else:
        dropped = []
    rec = np.zeros(len(rows), dtype=strax.record_dtype(spr))
    for i, r in enumerate(rows):
        x = rec[i]
        for f in ("time", "length", "dt", "channel", "pulse_length", "record_i"):
            x[f] = r[f]
        x["data"][: r["length"]] = r["data"]
        if not raw:
            x["baseline"] = r["baseline"]
            x["baseline_rms"] = r["rms"]
            x["area"] = 1000 + 7 * i  # arbitrary payload: metadata must survive the reduction
            x["reduction_level"] = i % 2
            x["amplitude_bit_shift"] = r["shift"]
    truth = [(r["pid"], r["record_i"]) for r in rows]
    return rec, truth, bool(dropped)


def truth_links(truth):
    n = len(truth)
    prev = [-1] * n
    nxt = [-1] * n
    pos = {t: i for i, t in enumerate(truth)}
    for (p, k), i in pos.items():
        j = pos.get((p, k - 1))
        if j is not None:
            prev[i] = j
            nxt[j] = i
    return prev, nxt


def links_or_die(rec, truth):
    """Reference links; the declarative reference and the generator's ground truth must agree (else the
    harness is wrong, not strax)."""
    want = truth_links(truth)
    decl = ref.record_links(rec)
    if (list(decl[0]), list(decl[1])) != (want[0], want[1]):
        raise AssertionError(f"generator/reference disagreement on links: {truth} {decl} {want}")
    return want


def snapshot(a):
    return a.tobytes()


# ------------------------------------------------------------------------------------------------
# thresholds
# ------------------------------------------------------------------------------------------------
AMP_FLOATS = [1.0, 2.0, 3.0, 5.0, 1.5, 2.5, 4.0]  # float lists give float64 arrays, int lists int64 arrays


@st.composite
def st_thr(draw):
    """Descriptor of (min_amplitude, min_height_over_noise); per-channel containers cover channels 0..3(+pad)."""
    mode = draw(st.sampled_from(["scalar", "scalar", "per_channel", "per_channel", "noise", "noise", "both"]))
    pad = draw(st.integers(0, 2))
    nc = 4 + pad

    def per_ch(values):
        return draw(st.lists(st.sampled_from(values), min_size=nc, max_size=nc))

    amp = dict(kind="scalar", v=draw(st.integers(1, 5)))
    hon = dict(kind="scalar", v=0)
    if mode in ("per_channel", "both"):
        ints_only = draw(st.booleans())
        amp = dict(kind=draw(st.sampled_from(["list", "tuple", "array"])),
                   v=per_ch([1, 2, 3, 5, 4] if ints_only else AMP_FLOATS))
    if mode == "noise":
        if draw(st.booleans()):
            hon = dict(kind="scalar", v=draw(st.sampled_from([1, 2, 3])))
        else:
            hon = dict(kind=draw(st.sampled_from(["list", "tuple", "array"])), v=per_ch([0.0, 1.0, 2.0, 3.0, 1.5]))
        if draw(st.booleans()):
            amp = dict(kind="scalar", v=1)
    if mode == "both":
        hon = dict(kind=draw(st.sampled_from(["list", "array"])), v=per_ch([0.0, 1.0, 2.0, 3.0, 1.5]))
    return dict(amp=amp, hon=hon)


def mk_thr(t):
    if t["kind"] == "scalar":
        return t["v"]
    if t["kind"] == "list":
        return list(t["v"])
    if t["kind"] == "tuple":
        return tuple(t["v"])
    return np.array(t["v"])


def thr_classes(rec, amp, hon, classes):
    """-> True when per-channel thresholds differ among the channels present."""
    chs = sorted({int(c) for c in rec["channel"]})
    ths = {}
    for r in rec:
        th = ref.threshold(r, amp, hon)
        ths.setdefault(int(r["channel"]), set()).add(th)
        if th > ref.per_channel(amp, int(r["channel"])):
            classes.add("thr_noise_dominates")
        if th != int(th):
            classes.add("thr_fractional")
    amp_differ = len({ref.per_channel(amp, c) for c in chs}) > 1
    hon_differ = len({ref.per_channel(hon, c) for c in chs}) > 1
    if amp_differ or hon_differ:
        classes.add("thr_per_channel_differ")
    if any(len(v) > 1 for v in ths.values()):
        classes.add("thr_differs_within_channel")
    for name, v in (("amp", amp), ("hon", hon)):
        classes.add(f"{name}_{type(v).__name__}" + (f"_{v.dtype.kind}" if isinstance(v, np.ndarray) else ""))
    return amp_differ or hon_differ


# ------------------------------------------------------------------------------------------------
# find_hits
# ------------------------------------------------------------------------------------------------
INT_FIELDS = ("time", "length", "dt", "channel", "left", "right", "record_i", "max_time")
F32_FIELDS = ("area", "height", "threshold")


def compare_hits(got, want, ctx):
    check(got.dtype == np.dtype(strax.hit_dtype), "hits.dtype", ctx)
    order = np.lexsort((got["left"], got["record_i"]))  # "returned hits are NOT sorted": canonical order
    got = got[order]
    g = [(int(h["record_i"]), int(h["left"]), int(h["right"])) for h in got]
    w = [(h["record_i"], h["left"], h["right"]) for h in want]
    if g != w:
        missing = [x for x in w if x not in g]
        extra = [x for x in g if x not in w]
        clause = "hits.runs"
        if missing and not extra:
            clause = "hits.runs_missing"
        elif extra and not missing:
            clause = "hits.runs_extra"
        check(False, clause, dict(ctx, got=g, want=w))
    for hg, hw in zip(got, want):
        for f in INT_FIELDS:
            check(int(hg[f]) == hw[f], "hits.field_" + f, dict(ctx, hit=hw, got=int(hg[f])))
        for f in F32_FIELDS:
            check(np.float32(hg[f]).tobytes() == np.float32(hw[f]).tobytes(), "hits.field_" + f,
                  dict(ctx, hit=hw, got=float(hg[f])))
    return got


def hit_classes(rec, want, truth, classes):
    """-> non-trivial?"""
    spr = rec["data"].shape[1]
    nt = False
    per_rec = {}
    pos = {t: i for i, t in enumerate(truth)}
    for h in want:
        per_rec.setdefault(h["record_i"], []).append(h)
        n = int(rec[h["record_i"]]["length"])
        p, k = truth[h["record_i"]]
        if h["left"] == 0:
            classes.add("hit_at_record_start")
            if k > 0:
                classes.add("hit_at_fragment_boundary")
                nt = True
        if h["right"] == n:
            classes.add("hit_at_record_end")
            if n == spr and int(rec[h["record_i"]]["pulse_length"]) > (k + 1) * spr:
                classes.add("hit_at_fragment_boundary")
                nt = True
                j = pos.get((p, k + 1))
                if j is not None and any(x["record_i"] == j and x["left"] == 0 for x in want):
                    classes.add("hit_split_over_two_fragments")
        if h["left"] == 0 and h["right"] == n:
            classes.add("hit_is_whole_record")
        if h["length"] == 1:
            classes.add("hit_one_sample")
        seg = [int(v) for v in rec[h["record_i"]]["data"][h["left"]: h["right"]]]
        if seg.index(max(seg)) > 0:
            classes.add("max_not_first_sample")
        if seg.count(max(seg)) > 1 and len(set(seg)) > 1:
            classes.add("max_attained_twice")
    if any(len(v) >= 2 for v in per_rec.values()):
        classes.add("ge2_hits_in_record")
        nt = True
    if not want:
        classes.add("no_hits")
    if len(per_rec) < len(rec):
        classes.add("record_without_hit")
    return nt


@st.composite
def st_hits(draw):
    d = draw(st_pulses())
    d["thr"] = draw(st_thr())
    return d


def run_hits(d):
    rec, truth, dropped = build_records(d)
    amp, hon = mk_thr(d["thr"]["amp"]), mk_thr(d["thr"]["hon"])
    before = snapshot(rec)
    if d["thr"]["hon"]["kind"] == "scalar" and d["thr"]["hon"]["v"] == 0 and d["spr"] % 2:
        got = strax.find_hits(rec, min_amplitude=amp)  # min_height_over_noise defaults to 0
    else:
        got = strax.find_hits(rec, min_amplitude=amp, min_height_over_noise=hon)
    check(snapshot(rec) == before, "hits.input_modified", d)
    want = ref.find_hits(rec, amp, hon)
    compare_hits(got, want, dict(d=d))
    classes = set()
    nt = thr_classes(rec, amp, hon, classes)
    nt = hit_classes(rec, want, truth, classes) or nt
    if dropped:
        classes.add("fragments_removed")
    classes.add(f"spr_{d['spr']}")
    return dict(nt=nt, classes=sorted(classes))


# ------------------------------------------------------------------------------------------------
# record_links
# ------------------------------------------------------------------------------------------------
def run_links(d):
    rec, truth, dropped = build_records(d)
    want = links_or_die(rec, truth)
    before = snapshot(rec)
    prev, nxt = strax.record_links(rec)
    check(snapshot(rec) == before, "links.input_modified", d)
    check(len(prev) == len(rec) and len(nxt) == len(rec), "links.length", d)
    check([int(x) for x in prev] == want[0], "links.previous", dict(d=d, got=[int(x) for x in prev], want=want[0]))
    check([int(x) for x in nxt] == want[1], "links.next", dict(d=d, got=[int(x) for x in nxt], want=want[1]))
    classes = set()
    multi = any(k > 0 for _, k in truth)
    chans = [int(c) for c in rec["channel"]]
    # a record of another channel sits between two linked fragments
    interleaved = any(want[0][i] != -1 and any(chans[j] != chans[i] for j in range(want[0][i] + 1, i))
                      for i in range(len(rec)))
    orphan = any(k > 0 and want[0][i] == -1 for i, (_, k) in enumerate(truth))
    same_time = len(set(int(t) for t in rec["time"])) < len(rec)
    if multi:
        classes.add("multi_fragment")
    if interleaved:
        classes.add("other_channel_between_linked")
    if orphan:
        classes.add("continuation_without_predecessor")
    if same_time:
        classes.add("equal_times")
    if any(want[0][i] != -1 and want[1][i] != -1 for i in range(len(rec))):
        classes.add("middle_fragment_linked_both_ways")
    # a later pulse of the same channel starts exactly at the end of the previous pulse
    by_ch = {}
    for i, r in enumerate(rec):
        by_ch.setdefault(int(r["channel"]), []).append(i)
    for idx in by_ch.values():
        for a, b in zip(idx[:-1], idx[1:]):
            if truth[a][0] != truth[b][0] and int(rec[b]["time"]) == int(rec[a]["time"]) + int(rec[a]["length"]) * int(rec[a]["dt"]):
                classes.add("pulses_back_to_back")
    return dict(nt=interleaved or orphan, classes=sorted(classes))


# ------------------------------------------------------------------------------------------------
# cut_outside_hits
# ------------------------------------------------------------------------------------------------
def hits_array(want):
    h = np.zeros(len(want), dtype=strax.hit_dtype)
    for i, w in enumerate(want):
        for f in INT_FIELDS + F32_FIELDS:
            h[i][f] = w[f]
    return h


def check_cut(rec, hits_list, hits_arr, el, er, links, ctx, classes=None, truth=None):
    before = snapshot(rec)
    hbefore = snapshot(hits_arr)
    out = strax.cut_outside_hits(rec, hits_arr, left_extension=el, right_extension=er)
    check(snapshot(rec) == before, "cut.input_records_modified", ctx)
    check(snapshot(hits_arr) == hbefore, "cut.input_hits_modified", ctx)
    check(out is not rec and out.dtype == rec.dtype and len(out) == len(rec), "cut.shape", ctx)
    for f in rec.dtype.names:
        if f in ("data", "reduction_level"):
            continue
        check(out[f].tobytes() == rec[f].tobytes(), "cut.metadata_changed:" + f, ctx)
    check(bool(np.all(out["reduction_level"] == ref.HITS_ONLY)), "cut.reduction_level", ctx)
    want, keep = ref.cut_outside_hits(rec, hits_list, el, er, links)
    if not np.array_equal(out["data"], want):
        got = out["data"]
        lost = keep & (got != rec["data"])
        surplus = (~keep) & (got != 0)
        clause = "cut.data"
        if lost.any() and not surplus.any():
            clause = "cut.sample_in_extension_lost"
        elif surplus.any() and not lost.any():
            clause = "cut.sample_outside_not_zeroed"
        where = []
        spr = rec["data"].shape[1]
        for h in hits_list:
            if h["left"] - el < 0:
                where.append("reaches_previous")
            if h["right"] + er > spr:
                where.append("reaches_next")
        check(False, clause, dict(ctx, reach=sorted(set(where)), got=got.tolist(), want=want.tolist()))
    if classes is not None:
        spr = rec["data"].shape[1]
        prev, nxt = links
        for h in hits_list:
            ri = h["record_i"]
            n = int(rec[ri]["length"])
            if h["left"] - el < 0:
                if prev[ri] != -1:
                    classes.add("continues_into_previous_fragment")
                elif truth[ri][1] == 0:
                    classes.add("clipped_at_pulse_start")
                else:
                    classes.add("previous_fragment_missing")
            if h["right"] + er > n:
                if n < spr or int(rec[ri]["pulse_length"]) == (truth[ri][1] + 1) * spr:
                    classes.add("clipped_at_pulse_end")
                elif h["right"] + er > spr:
                    classes.add("continues_into_next_fragment" if nxt[ri] != -1 else "next_fragment_missing")
        inb = np.arange(spr)[None, :] < rec["length"][:, None]
        if (inb & ~keep & (rec["data"] != 0)).any():
            classes.add("nonzero_sample_zeroed")
        if (inb & ~keep).any():
            classes.add("some_sample_outside")
        else:
            classes.add("everything_kept")
        if (keep & inb).sum() > sum(h["length"] for h in hits_list):
            classes.add("extension_keeps_sub_threshold_samples")
    return out


@st.composite
def st_cut(draw):
    d = draw(st_pulses())
    d["thr"] = draw(st_thr())
    spr = d["spr"]
    ext = st.sampled_from([0, 1, 1, 2, 2, 3, spr - 1, spr, spr // 2])
    d["el"] = draw(ext)
    d["er"] = draw(ext)
    # the caller may pass any subset of the hits (e.g. after a selection); mostly all of them
    d["sel"] = draw(st.one_of(st.none(), st.none(), st.lists(st.integers(0, 7), min_size=1, max_size=4)))
    return d


def run_cut(d):
    rec, truth, dropped = build_records(d)
    amp, hon = mk_thr(d["thr"]["amp"]), mk_thr(d["thr"]["hon"])
    links = links_or_die(rec, truth)
    hits = ref.find_hits(rec, amp, hon)
    classes = set()
    nt = thr_classes(rec, amp, hon, set())
    nt = hit_classes(rec, hits, truth, classes) or nt
    classes = {c for c in classes if c in ("hit_at_fragment_boundary", "ge2_hits_in_record", "no_hits",
                                           "hit_split_over_two_fragments")}
    if d["sel"] is not None and hits:
        pick = sorted({i % len(hits) for i in d["sel"]})
        hits = [hits[i] for i in pick]
        classes.add("hit_subset")
    el, er = min(d["el"], d["spr"]), min(d["er"], d["spr"])
    check_cut(rec, hits, hits_array(hits), el, er, links, dict(d=d), classes, truth)
    if el == 0 or er == 0:
        classes.add("extension_zero")
    if el == d["spr"] or er == d["spr"]:
        classes.add("extension_eq_record_length")
    if dropped:
        classes.add("fragments_removed")
    return dict(nt=nt, classes=sorted(classes))


# ------------------------------------------------------------------------------------------------
# exhaustive small scope: one pulse, alphabet {0,1,2}
# ------------------------------------------------------------------------------------------------
def enum_exh(tier, seed):
    nmax = 9 if tier == "thorough" else 6
    maxfrag = 3 if tier == "thorough" else 2
    for n in range(1, nmax + 1):
        sprs = [s for s in range(1, min(n + 1, 8) + 1) if -(-n // s) <= maxfrag]
        for w in itertools.product((0, 1, 2), repeat=n):
            for spr in sprs:
                for thr in (1, 2):
                    yield dict(w=list(w), spr=spr, thr=thr)


def run_exh(d):
    spr, w, thr = d["spr"], d["w"], d["thr"]
    full = dict(spr=spr, t0=1, drop=[], chans=[dict(ch=1, dt=2, off=0, pulses=[dict(gap=0, w=w, bl=1, rms=[0] * 3)])])
    nfrag = -(-len(w) // spr)
    classes = set()
    nt = False
    inner = inner_nt = 0
    for present in itertools.product((True, False), repeat=nfrag):
        if not any(present):
            continue
        dd = dict(full, drop=[k for k in range(nfrag) if not present[k]])
        rec, truth, _ = build_records(dd)
        ctx = dict(d=d, present=list(present))
        links = links_or_die(rec, truth)
        prev, nxt = strax.record_links(rec)
        check([int(x) for x in prev] == links[0] and [int(x) for x in nxt] == links[1], "links.exh",
              dict(ctx, got=(prev.tolist(), nxt.tolist()), want=links))
        want = ref.find_hits(rec, thr)
        got = strax.find_hits(rec, min_amplitude=thr)
        compare_hits(got, want, ctx)
        harr = hits_array(want)
        vnt = hit_classes(rec, want, truth, classes)
        nt = nt or vnt
        inner += 2 + (spr + 1) ** 2  # hits, links and every extension pair on this set of fragments
        inner_nt += (2 + (spr + 1) ** 2) if vnt else 0
        for el in range(spr + 1):
            for er in range(spr + 1):
                check_cut(rec, want, harr, el, er, links, dict(ctx, el=el, er=er),
                          classes if (el, er) in ((1, 1), (spr, spr), (0, 2)) else None, truth)
        if not all(present):
            classes.add("fragments_removed")
    classes.add(f"fragments_{nfrag}")
    return dict(nt=nt, classes=sorted(classes), inner_evaluations=inner, inner_nontrivial=inner_nt)


# ------------------------------------------------------------------------------------------------
# baseline (+ integrate after baselining: area is the physical integral)
# ------------------------------------------------------------------------------------------------
BASES = [100, 16000, 7, 16383]


@st.composite
def st_baseline(draw):
    d = draw(st_pulses(min_spr=3))
    for c in d["chans"]:
        base = draw(st.integers(0, len(BASES) - 1))
        for p in c["pulses"]:
            p["base"] = base  # one digitizer baseline per channel, jitter per sample below
            p["jit"] = draw(st.lists(st.sampled_from([0, 0, 1, -1, 2]), min_size=1, max_size=4))
            p.pop("bl"), p.pop("rms")
    d["drop"] = []
    min_first = min(min(len(p["w"]), d["spr"]) for c in d["chans"] for p in c["pulses"])
    d["bs"] = draw(st.integers(1, min_first))
    d["flip"] = draw(st.sampled_from([True, True, False]))
    # sloppy chunking: the first fragment(s) of the first pulse of a channel were left in the previous chunk
    d["orphan"] = draw(st.sampled_from([None, None, None, 0, 1, 2]))
    d["sloppy"] = draw(st.booleans())
    d["fallback"] = draw(st.sampled_from([16000, 16000, 100]))
    return d


def raw_records(d):
    dd = dict(d, chans=[])
    for c in d["chans"]:
        pulses = []
        for p in c["pulses"]:
            base = BASES[p["base"]]
            jit = p["jit"]
            w = [max(0, min(16383, base + jit[i % len(jit)] - v)) for i, v in enumerate(p["w"])]
            pulses.append(dict(gap=p["gap"], w=w))
        dd["chans"].append(dict(c, pulses=pulses))
    rec, truth, _ = build_records(dd, raw=True)
    orphan_ch = None
    if d["orphan"] is not None:
        c = d["chans"][d["orphan"] % len(d["chans"])]
        # remove fragment 0 of the first pulse of that channel, if the pulse has more fragments
        first = [i for i, r in enumerate(rec) if int(r["channel"]) == c["ch"]]
        p0 = truth[first[0]][0]
        if sum(1 for t in truth if t[0] == p0) >= 2:
            keep = [i for i in range(len(rec)) if i != first[0]]
            rec = rec[keep].copy()
            truth = [truth[i] for i in keep]
            orphan_ch = c["ch"]
    return rec, truth, orphan_ch


def run_baseline(d):
    raw, truth, orphan_ch = raw_records(d)
    rec = raw.copy()
    bs, flip = d["bs"], d["flip"]
    classes = set()
    # every argument is passed explicitly: an omitted argument is a separate numba signature (compile time)
    kw = dict(baseline_samples=bs, flip=flip, allow_sloppy_chunking=d["sloppy"], fallback_baseline=d["fallback"])
    try:
        want = ref.baseline(raw, bs, flip, d["sloppy"], d["fallback"])
    except ref.MissingFirstFragment:
        want = None
    try:
        ret = strax.baseline(rec, **kw)
    except RuntimeError as e:
        check(want is None and "missing 0th fragment" in str(e), "baseline.raised_on_complete_pulses", dict(d=d, e=str(e)))
        return dict(nt=True, classes=["missing_first_fragment_refused"])
    check(want is not None, "baseline.missing_first_fragment_accepted", d)
    check(ret is None, "baseline.return_value", d)
    sign = -1 if flip else 1
    for i, (r, r0, (wd, wbl, wrms)) in enumerate(zip(rec, raw, want)):
        ctx = dict(d=d, record=i, truth=truth[i])
        n = int(r["length"])
        check(np.float32(r["baseline"]).tobytes() == np.float32(wbl).tobytes(), "baseline.stored_baseline",
              dict(ctx, got=float(r["baseline"]), want=wbl))
        if wrms != wrms:
            check(bool(np.isnan(r["baseline_rms"])), "baseline.fallback_rms_not_nan", dict(ctx, got=float(r["baseline_rms"])))
            classes.add("fallback_baseline_used")
        else:
            check(bool(np.isclose(float(r["baseline_rms"]), wrms, rtol=1e-6, atol=1e-6)), "baseline.stored_rms",
                  dict(ctx, got=float(r["baseline_rms"]), want=wrms))
        check([int(v) for v in r["data"]] == wd, "baseline.data", dict(ctx, got=r["data"].tolist(), want=wd))
        # round trip through the stored fields: data_orig = int(baseline) -+ data
        back = [int(float(r["baseline"])) + sign * int(v) for v in r["data"][:n]]
        check(back == [int(v) for v in r0["data"][:n]], "baseline.not_invertible_from_stored_baseline", ctx)
        check(not np.any(r["data"][n:]), "baseline.padding_not_zero", ctx)
        for f in rec.dtype.names:
            if f not in ("data", "baseline", "baseline_rms"):
                check(r[f] == r0[f], "baseline.metadata_changed:" + f, ctx)
        if float(r["baseline"]) % 1:
            classes.add("fractional_baseline")
    # integration of baselined (flipped) records gives the physical integral sum(baseline - raw) to rounding
    if flip:
        before = snapshot(rec)
        check(strax.integrate(rec) is None, "integrate.return_value", d)
        for i, (r, r0) in enumerate(zip(rec, raw)):
            n = int(r["length"])
            phys = sum(float(r["baseline"]) - int(v) for v in r0["data"][:n])
            check(abs(int(r["area"]) - phys) <= 0.5 + 1e-6, "integrate.area_vs_baseline",
                  dict(d=d, record=i, area=int(r["area"]), physical=phys))
            check(int(r["area"]) == ref.integrate(r), "integrate.area", dict(d=d, record=i, got=int(r["area"])))
        a = rec.copy()
        a["area"] = 0
        b = np.frombuffer(before, dtype=rec.dtype).copy()
        b["area"] = 0
        check(a.tobytes() == b.tobytes(), "integrate.other_fields_changed", d)
    multi = any(k > 0 for _, k in truth)
    per_ch = {}
    for (p, _), r in zip(truth, rec):
        per_ch.setdefault(int(r["channel"]), set()).add(p)
    several = any(len(v) >= 2 for v in per_ch.values())
    if multi:
        classes.add("multi_fragment")
    if several:
        classes.add("ge2_pulses_in_channel")
    if len(per_ch) >= 2:
        classes.add("ge2_channels")
    if not flip:
        classes.add("no_flip")
    if orphan_ch is not None:
        classes.add("first_fragment_missing")
    return dict(nt=multi or several, classes=sorted(classes))


# ------------------------------------------------------------------------------------------------
# integrate / zero_out_of_bounds on free-form records
# ------------------------------------------------------------------------------------------------
@st.composite
def st_recs(draw):
    spr = draw(st.sampled_from([3, 4, 5, 6, 8, 2, 7]))
    n = draw(st.integers(0, 5))
    recs = []
    for _ in range(n):
        ln = draw(st.sampled_from([spr, spr, draw(st.integers(1, spr))]))
        recs.append(dict(length=ln,
                         data=draw(st.lists(st.sampled_from(ALPHABET + [-7, 300, 32767, -32768]), min_size=spr, max_size=spr)),
                         bl=draw(st.sampled_from([0.0, 0.25, 0.5, 0.75, 0.125, 100.5, 16000.75, 15999.5, 3.375])),
                         shift=draw(st.sampled_from([0, 0, 0, 1, 2, 3])), ch=draw(st.integers(0, 3))))
    return dict(spr=spr, recs=recs)


def build_free(d, pad_garbage):
    spr = d["spr"]
    rec = np.zeros(len(d["recs"]), dtype=strax.record_dtype(spr))
    for i, r in enumerate(d["recs"]):
        x = rec[i]
        x["time"] = 10 + i * spr * 2
        x["dt"] = 2
        x["length"] = r["length"]
        x["pulse_length"] = r["length"]
        x["channel"] = r["ch"]
        x["baseline"] = r["bl"]
        x["baseline_rms"] = 1.5
        x["amplitude_bit_shift"] = r["shift"]
        x["area"] = -12345
        x["reduction_level"] = 1
        x["data"][:] = r["data"]
        if not pad_garbage:
            x["data"][r["length"]:] = 0
    return rec


def unchanged_except(out, before, fields):
    a, b = out.copy(), before.copy()
    for f in fields:
        a[f] = 0
        b[f] = 0
    return a.tobytes() == b.tobytes()


def run_integrate(d):
    rec = build_free(d, pad_garbage=False)
    before = rec.copy()
    strax.integrate(rec)
    classes = set()
    nt = False
    for i, r in enumerate(rec):
        want = ref.integrate(before[i])
        check(int(r["area"]) == want, "integrate.area", dict(d=d, record=i, got=int(r["area"]), want=want))
        fp = ref.frac(r["baseline"])
        x = fp * int(r["length"])
        if fp:
            nt = True
            classes.add("fractional_baseline")
            if x % 1 == 0.5:
                classes.add("rounding_tie")
        if int(r["amplitude_bit_shift"]):
            nt = True
            classes.add("bit_shift")
        if int(r["length"]) < d["spr"]:
            classes.add("short_record")
    check(unchanged_except(rec, before, ["area"]), "integrate.other_fields_changed", d)
    if not len(rec):
        classes.add("empty")
    return dict(nt=nt, classes=sorted(classes))


def run_zero(d):
    rec = build_free(d, pad_garbage=True)
    before = rec.copy()
    strax.zero_out_of_bounds(rec)
    classes = set()
    nt = False
    for i, (r, r0) in enumerate(zip(rec, before)):
        n = int(r0["length"])
        check(r["data"][:n].tolist() == r0["data"][:n].tolist(), "zero_oob.sample_inside_changed", dict(d=d, record=i))
        check(not np.any(r["data"][n:]), "zero_oob.sample_outside_not_zero", dict(d=d, record=i, got=r["data"].tolist()))
        if np.any(r0["data"][n:]):
            nt = True
            classes.add("garbage_beyond_length")
        if n == d["spr"]:
            classes.add("full_record")
    check(unchanged_except(rec, before, ["data"]), "zero_oob.metadata_changed", d)
    if not len(rec):
        classes.add("empty")
    return dict(nt=nt, classes=sorted(classes))


# no required_classes: the runner reports a missing class as a harness error *before* any violation, and a
# defect that breaks a whole class (e.g. links across channels) would then hide behind exit 2.
SUBCHECKS = [
    SubCheck("hits", run_hits, strategy=st_hits, quick=6000, thorough=250000),
    SubCheck("links", run_links, strategy=st_pulses, quick=4000, thorough=100000),
    SubCheck("cut", run_cut, strategy=st_cut, quick=6000, thorough=250000),
    SubCheck("exh", run_exh, enumerate=enum_exh, exhaustive_in=("quick", "thorough")),
    SubCheck("baseline", run_baseline, strategy=st_baseline, quick=4000, thorough=120000),
    SubCheck("integrate", run_integrate, strategy=st_recs, quick=3000, thorough=60000),
    SubCheck("zero_oob", run_zero, strategy=st_recs, quick=3000, thorough=40000),
]
