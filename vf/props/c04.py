"""C04 - a crash or I/O failure never leaves wrong data visible as valid.

Scenario = C01-style case (graph, chunkings, pre-stored subset, processor configuration).  A dry run under the
file-system fault layer (vf/faults/fsfaults.py) records every mutating file-system operation issued below the
storage directory.  Every operation index (a spread subset of at most 40 when there are more than 80) x fault
mode {OSError once, OSError sticky (everything from there on), OSError on every later operation on that same path,
process death just before, process death just after (forked child,
os._exit)} is then executed.  Observer = a fresh Context on the same directory with the fault layer removed:
 * every data type reported stored must load completely and equal the whole-run reference;
 * a call that returned normally must have stored (correctly) everything the fault-free run stores
   (a failed save is never reported as success) - except when the fault hit the documented writability probe of
   the storage frontend, which turns the frontend off for that data type before any save is attempted;
 * the identical request, repeated in the fresh context, returns the correct rows and leaves the target stored and
   correct when the fault-free run stores it, with no manual cleanup.
"""
import itertools
import os
import select
import shutil
import signal
import time

from hypothesis import strategies as st

import strax
from vf import graphs
from vf.core import Inconclusive, SubCheck, Violation
from vf.faults.fsfaults import FSFaults
from vf.findings import signature
from vf.props import c01

PROPERTY_ID = "C04"
LEVEL = "fault_enumeration"
ENV = {"NUMBA_DISABLE_JIT": "1"}
RULE = (
    "A scenario = C01-style case with at least one saved data type.  All mutating file-system operations of its "
    "fault-free run are enumerated (directory creation, temp-file open and write, chunk rename, metadata open and "
    "write, final directory rename, removals); each index (all when <= 80, else 40 spread) is executed with each of "
    "4 fault modes.  evaluations = scenarios + executed (index, mode) pairs (inner_evaluations).  Non-trivial = the "
    "fault hit an operation other than the first directory creation and the scenario has >= 2 chunks.  distinct = "
    "distinct scenario descriptor hashes."
)
ASSUMPTIONS = [
    "process death = os._exit(137) in a forked child (no finally/close/rename runs afterwards); power loss, lost "
    "renames and partial page writes are not modelled",
    "I/O failure = OSError(ENOSPC) raised by the intercepted Python-level call (os.makedirs/mkdir/rename/replace/"
    "remove/unlink/rmdir, shutil.rmtree/move, open for writing, file.write): once, from that operation on (sticky), "
    "or on every later operation on the same path (a file that cannot be written however often it is tried)",
    "DataDirectory / FileSytemBackend only; single storage frontend",
    "threaded scenarios run under the controlled scheduler with a generated schedule; numba helpers un-jitted",
]
_COUNTER = itertools.count()
MODES = ("raise", "sticky", "path", "die_before", "die_after")


@st.composite
def st_case(draw, threaded=None, multiprocess=False):
    d = draw(c01.st_case(threaded=threaded, multiprocess=multiprocess))
    if all(len(r) < 2 for r in d["rows"].values()):
        s0 = sorted(d["rows"])[0]
        d["rows"][s0] = [[0, 1], [2, 3], [4, 6]]
        d["t1"] = max(d["t1"], 7)
        d["cutsA"][s0] = [c for c in d["cutsA"][s0] if c not in (5,)]
        d["cutsB"][s0] = [c for c in d["cutsB"][s0] if c not in (5,)]
    prov = graphs.providers(d["spec"])
    # make sure something is saved by the request: target saved at least when it is the target
    tn = prov[d["target"]]
    if graphs.save_when_of(tn, d["target"]) < 2:
        if isinstance(tn.get("save_when"), dict):
            tn["save_when"][d["target"]] = draw(st.integers(2, 3))
        else:
            tn["save_when"] = draw(st.integers(2, 3))
    d["stored"] = [t for t in d["stored"] if t != d["target"] and graphs.save_when_of(prov[t], t) > 0]
    if d["cfg"]["processor"] == "threaded_mailbox" and not multiprocess:
        d["cfg"]["max_workers"] = draw(st.sampled_from([1, 2, 2, 3]))
    if multiprocess:
        _force_forked_saver(d)
    return d


def _force_forked_saver(d):
    """By construction (not by luck) the request inlines a saver into the pool jobs: the first source is the only
    parallel='process' plugin, a row-wise plugin on it is parallel, always saved, not rechunked, not pre-stored, and
    is the target."""
    spec = d["spec"]
    src = next(n for n in spec["nodes"] if n["op"] == "source")
    for n in spec["nodes"]:
        if n.get("parallel") == "process":
            n["parallel"] = True if n["op"] != "source" else None
        if n["op"] == "source" and n is not src:
            n.pop("parallel", None)
    src["parallel"] = "process"
    node = next((n for n in spec["nodes"] if n["op"] == "rowwise" and n.get("deps") == [src["name"]]), None)
    if node is None:
        node = dict(name="nf", op="rowwise", deps=[src["name"]], mul=2, add=1, target_rows=None)
        spec["nodes"].append(node)
    node.update(parallel=True, save_when=3, rechunk_on_save=False)
    d["stored"] = [t for t in d["stored"] if t != node["name"]]
    d["target"] = node["name"]


def request(d, classes, run_dir, policy):
    """The request under test; returns (exception or None, scheduler or None)."""
    cfg = d["cfg"]
    ctx = c01.make_context(classes, [strax.DataDirectory(run_dir)], cfg)
    chunks, exc, S = c01.run_pipeline(ctx, d["target"], cfg, policy)
    return exc, S


def observe(d, classes, run_dir, ref, t1u):
    """Fresh context, no faults: state of every data type."""
    ctx = c01.make_context(classes, [strax.DataDirectory(run_dir)])
    out = {}
    for t in graphs.all_types(d["spec"]):
        try:
            stored = ctx.is_stored("r", t)
        except Exception as e:  # noqa
            out[t] = "is_stored_raised:" + type(e).__name__
            continue
        if not stored:
            out[t] = "absent"
            continue
        try:
            ch = list(ctx.get_iter("r", t, processor="single_thread", progress_bar=False))
            c01.check_result(ch, ref[t], 0, t1u, d, "x")
            out[t] = "ok"
        except Violation as v:
            out[t] = "WRONG:" + v.clause
        except Exception as e:  # noqa
            out[t] = "UNLOADABLE:" + type(e).__name__
    return out


FORK_TIMEOUT_S = 300  # wall-clock budget of one forked execution (a normal one takes < 1 s)


def fork_run(fn):
    """Run fn() in a forked child; returns ('died', None) if it was killed by the fault layer, else
    ('returned'|'raised', info)."""
    r, w = os.pipe()
    pid = os.fork()
    if pid == 0:
        code = 0
        try:
            os.close(r)
            try:
                msg = fn()
            except BaseException as e:  # noqa
                msg = "raised:" + type(e).__name__
            os.write(w, str(msg).encode()[:200])
        except BaseException:  # noqa
            code = 3
        finally:
            os._exit(code)
    os.close(w)
    data = b""
    deadline = time.monotonic() + FORK_TIMEOUT_S
    while True:
        # a forked child can deadlock on a lock that another (non-strax) thread of the parent held at fork
        # time; that is a harness artefact: kill it and call the execution inconclusive, never a violation
        left = deadline - time.monotonic()
        ready = select.select([r], [], [], max(left, 0))[0] if left > 0 else []
        if not ready:
            os.kill(pid, signal.SIGKILL)
            os.waitpid(pid, 0)
            os.close(r)
            raise Inconclusive(f"forked child made no progress for {FORK_TIMEOUT_S} s (killed)")
        b = os.read(r, 4096)
        if not b:
            break
        data += b
    os.close(r)
    _, status = os.waitpid(pid, 0)
    if os.WIFEXITED(status) and os.WEXITSTATUS(status) == 137:
        return "died", None
    if os.WIFEXITED(status) and os.WEXITSTATUS(status) == 0:
        return data.decode(), None
    return "child_error", status


def spread(xs, n):
    if len(xs) <= n:
        return list(xs)
    idx = sorted({round(i * (len(xs) - 1) / (n - 1)) for i in range(n)})
    return [xs[i] for i in idx]


def run_case(d, max_indices=0):
    spec, unit = d["spec"], d["unit"]
    token = f"c04-{os.getpid()}-{next(_COUNTER)}"
    rt = graphs.new_runtime(token)
    base = c01.scratch_dir("c04")
    made = []

    def fresh_copy():
        run_dir = base + f"-run{next(_COUNTER)}"
        if os.path.isdir(base):
            shutil.copytree(base, run_dir)
        else:
            os.makedirs(run_dir)
        made.append(run_dir)
        return run_dir

    try:
        classes = graphs.build_classes(spec, token, unit)
        ref = graphs.evaluate(spec, d["rows"], unit)
        t1u = d["t1"] * unit
        c01.prestore(d, classes, rt, base)
        c01.set_sources(rt, d, "cutsB")
        pre = set(c01.stored_dirs(base))

        # ---- dry run under the counting layer
        run_dir = fresh_copy()
        with FSFaults(run_dir) as fs, c01.forked_saver_probe() as probe:
            exc, S = request(d, classes, run_dir, d["policy"])
        if exc is not None:
            raise Violation("dry.raised:" + type(exc).__name__, f"{exc!r} {d}") from exc
        c01.check_sched(S, d)
        labels = list(fs.log)
        L = len(labels)
        clean = observe(d, classes, run_dir, ref, t1u)
        bad = {t: s for t, s in clean.items() if s not in ("ok", "absent")}
        if bad:
            raise Violation("dry.stored_data_wrong", f"{bad} {d}")
        should_store = {t for t, s in clean.items() if s == "ok"}
        shutil.rmtree(run_dir, ignore_errors=True)
        if L == 0:
            return dict(nt=False, classes=["no_fs_ops"])

        indices = list(range(L)) if L <= 80 else spread(list(range(L)), 40)
        if max_indices:
            # quick tier: a spread of positions that always contains one of every operation label
            first_of_label = sorted({labels.index(x) for x in set(labels)})
            indices = sorted(set(spread(indices, max_indices)) | set(first_of_label))
        inner = 0
        cl = set()
        n_src_chunks = sum(len(c) + 1 for c in d["cutsB"].values())
        for i in indices:
            for mode in MODES:
                run_dir = fresh_copy()
                tag = f"[op={labels[i]}][mode={mode}][{d['cfg']['processor']}][pool={'yes' if d['cfg'].get('max_workers', 1) > 1 else 'no'}]"
                if mode.startswith("die"):
                    def child():
                        with FSFaults(run_dir, fail_at=i, mode=mode):
                            exc_, _ = request(d, classes, run_dir, d["policy"])
                        return "returned" if exc_ is None else "raised:" + type(exc_).__name__

                    call, info = fork_run(child)
                    if call == "child_error":
                        raise RuntimeError(f"harness: forked child failed with status {info}")
                else:
                    with FSFaults(run_dir, fail_at=i, mode=mode) as fs2:
                        exc, S = request(d, classes, run_dir, d["policy"])
                    call = "returned" if exc is None else "raised:" + type(exc).__name__
                    if S is not None:
                        if S.deadlock or S.timeouts_fired:
                            raise Violation("fault.hang", f"{tag} {S.deadlock} {S.timeout_events} op {i} {d}")
                inner += 1
                cl.add("op:" + labels[i])
                cl.add("mode:" + mode)
                state = observe(d, classes, run_dir, ref, t1u)
                bad = {t: s for t, s in state.items() if s not in ("ok", "absent")}
                if bad:
                    raise Violation("fault.stored_but_" + sorted(bad.values())[0].split(":")[0].lower(),
                                    f"{tag} after fault at op {i}: {bad}; call {call} {d}")
                writability_probe = labels[i].endswith(":parent")
                if call == "returned" and not writability_probe:
                    missing = sorted(t for t in should_store if state.get(t) != "ok")
                    if missing:
                        raise Violation("fault.failed_save_reported_as_success",
                                        f"{tag} call returned normally but {missing} not stored (fault at op {i}) {d}")
                # ---- retry the identical request in a fresh context, no faults, no cleanup
                ctx = c01.make_context(classes, [strax.DataDirectory(run_dir)], d["cfg"])
                chunks, exc, S = c01.run_pipeline(ctx, d["target"], d["cfg"], d["policy"])
                if exc is not None:
                    raise Violation("retry.raised:" + type(exc).__name__, f"{tag} {exc!r} after fault at op {i} {d}")
                c01.check_sched(S, d)
                c01.check_result(chunks, ref[d["target"]], 0, t1u, d, "retry")
                state2 = observe(d, classes, run_dir, ref, t1u)
                bad = {t: s for t, s in state2.items() if s not in ("ok", "absent")}
                if bad:
                    raise Violation("retry.stored_but_wrong", f"{tag} {bad} after retry (fault at op {i}) {d}")
                if d["target"] in should_store and state2.get(d["target"]) != "ok":
                    raise Violation("retry.target_not_stored", f"{tag} {state2} after retry (fault at op {i}) {d}")
                left = [x for x in c01.stored_dirs(run_dir) if x.endswith("_temp")]
                if left and d["target"] in should_store:
                    tkey = [x for x in left if f"-{d['target']}-" in x]
                    if tkey:
                        raise Violation("retry.temp_dir_of_target_left", f"{tag} {tkey} {d}")
                shutil.rmtree(run_dir, ignore_errors=True)
        cl.add(d["cfg"]["processor"])
        if probe["forked"]:
            cl.add("forked_saver")  # a saver inlined into a (simulated) worker process wrote chunks
        if d["cfg"]["processor"] == "threaded_mailbox" and d["cfg"].get("max_workers", 1) > 1:
            cl.add("pool_saving")
        if L > 80:
            cl.add("ops_subsampled")
        return dict(nt=n_src_chunks >= 2 and L >= 2, classes=sorted(cl), inner_evaluations=inner,
                    inner_nontrivial=max(0, inner - len(MODES)))
    finally:
        graphs.drop_runtime(token)
        shutil.rmtree(base, ignore_errors=True)
        for p in made:
            shutil.rmtree(p, ignore_errors=True)


def run_case_spread(d):
    return run_case(d, max_indices=4)


SUBCHECKS = [
    SubCheck("single_spread", run_case_spread, strategy=lambda: st_case(threaded=False), quick=16, thorough=800,
             min_per_shard=1),
    SubCheck("threaded_spread", run_case_spread, strategy=lambda: st_case(threaded=True), quick=32, thorough=1600,
             min_per_shard=1),
    SubCheck("all_indices", run_case, strategy=lambda: st_case(), quick=8, thorough=400, min_per_shard=1),
    SubCheck("multiprocess_spread", run_case_spread, strategy=lambda: st_case(threaded=True, multiprocess=True),
             quick=16, thorough=1600, min_per_shard=1, required_classes=("forked_saver",)),
]
