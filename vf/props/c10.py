"""C10 - time-range, row and column selections commute with chunking and storage.

One or two data types of the same kind are written to a scratch DataDirectory through real source plugins
(source chunking x rechunk-on-save x rechunk-on-load drawn independently per data type).  Then
Context.get_array is asked for partial results and compared with

        project(select(time_filter(full reference array)))

where the reference array comes from the descriptor (never from strax) and filter / selection / projection
are naive per-row Python written from the docstrings of Context.get_array / strax.apply_selection.
"""
import operator
import os
import re
import shutil
import tempfile

import numpy as np
from hypothesis import strategies as st

import strax
from vf import gen
from vf.core import Excluded, SubCheck, Violation
from vf.findings import signature

PROPERTY_ID = "C10"
LEVEL = "exploration"
RULE = (
    "A case = one stored layout (rows on an integer grid scaled by a unit and shifted by an epoch base; per data "
    "type: admissible source cuts incl. zero-duration chunks, time encoding, rechunk-on-save / rechunk-on-load "
    "with tiny targets) + requests.  Range endpoints are taken from the candidate set {row starts, row ends, "
    "on-disk chunk edges} + {-1,0,+1} plus two far-outside values; sub-check `sweep` runs EVERY pair r0<=r1 of "
    "that set (runs of <=6 rows) in both time-selection modes; `ranges` (single targets, 18-30 independent "
    "requests per layout) and `multi` (both same-kind targets together, one range shown in 2-5 presentations) draw "
    "pairs and combine them with the three range forms (time_range, seconds_range on the 2**-2 s / 2**-9 s units, "
    "time_within a synthetic or a data row), time_selection fully_contained/touching/skip/default, selection "
    "strings / lists / tuples / callables, keep/drop columns, both processors; `unsaved` asks partial requests "
    "(range / selection / columns) of data that is not stored yet and looks for anything written.  Non-trivial = "
    "an endpoint coincides with or is adjacent (+-1) to a row or chunk edge and the requested data has >=2 chunks "
    "on disk (`unsaved`: the control full request afterwards did write the data).  inner_evaluations = number of "
    "get_array requests compared with the oracle; distinct = distinct descriptor hashes."
)
ASSUMPTIONS = [
    "stored data obeys the laws of chunking: rows sorted by time, positive duration, wholly inside one chunk, "
    "chunks contiguous (zero-duration chunks allowed, empty)",
    "seconds_range counts from the run start as documented in Context.estimate_run_start_and_end: without run "
    "metadata, the start of the first stored chunk floored to whole seconds; seconds values are multiples of "
    "2**-2 s or 2**-9 s so that the float -> ns conversion is exact",
    "selection functions / expressions are row-local; keep_columns / drop_columns name existing fields and leave "
    "at least one column",
    "time_selection='skip' with a time range: only bounds are claimed (every row touching the range is returned, "
    "rows are a contiguous run of the full result) since the docstring promises no filter at all",
    "a degenerate range r0 == r1 may either be answered (with the rows the docstring formula selects) or be "
    "rejected as overlapping no chunk; both are accepted",
    "DataDirectory / FileSytemBackend only",
    "NUMBA_DISABLE_JIT=1 in the workers: strax's jitted helpers (chunk.split_array, diff, endtime) execute the same "
    "source as plain Python; numba's type specialisation itself is not part of this property",
]

# Workers run strax's numba helpers (split_array, diff, endtime ...) in pure-Python mode: every worker has an empty
# numba cache, and compiling them for each record dtype costs more than all requests of the quick tier together.
ENV = {"NUMBA_DISABLE_JIT": "1"}

RUN = "run0"
SEC_UNITS = (250_000_000, 1_953_125)  # 2**-2 s and 2**-9 s in ns: k*unit/1e9 is an exact double
UNITS = (1, 1, 7, 1000, 1001) + SEC_UNITS
EPOCH = 1_600_000_000 * 10 ** 9
A_FIELDS = [("id", np.int64), (("A float payload", "x"), np.float32), ("ch", np.int16)]
B_FIELDS = [("w", np.int64), (("Another payload", "y"), np.float64), ("arr", np.int32, (2,))]
TYPE_NAMES = ("aa", "bb")
OPS = {"<": operator.lt, "<=": operator.le, ">": operator.gt, ">=": operator.ge, "==": operator.eq,
       "!=": operator.ne}

TAGS = []


def check(cond, clause, detail=""):
    if not cond:
        raise Violation(clause, "".join(f"[{t}]" for t in sorted(set(TAGS)))
                        + (detail if isinstance(detail, str) else repr(detail)))


# ------------------------------------------------------------------------------------------------
# layout: descriptor -> stored data
# ------------------------------------------------------------------------------------------------
@st.composite
def st_cuts(draw, rows, T):
    """Sorted multiset of admissible cut times in [0, T] (duplicates and cuts at 0 / T give zero-duration
    chunks, cuts in row-free regions give empty chunks)."""
    adm = gen.admissible_times(rows, 0, T)
    shape = draw(st.sampled_from(["few", "few", "few", "many", "all", "none", "dup", "ends"]))
    if shape == "none":
        return []
    if shape == "all":
        return list(adm)
    lo, hi = (3, 6) if shape == "many" else (1, 3)
    cuts = draw(st.lists(st.sampled_from(adm), min_size=lo, max_size=hi))
    if shape == "dup":
        cuts.append(cuts[draw(st.integers(0, len(cuts) - 1))])
    if shape == "ends":
        cuts += draw(st.sampled_from([[0], [T], [0, T], [T, T]]))
    return sorted(cuts)


@st.composite
def st_type(draw, rows, T, unit):
    return dict(
        cuts=draw(st_cuts(rows, T)),
        enc=draw(st.sampled_from(["endtime", "endtime", "dt"])) if unit < 2 ** 15 else "endtime",
        ros=draw(st.sampled_from([0, 0, 0, 1, 2, 3])),  # rechunk on save: 0 = off, else target size in rows
        rol=draw(st.sampled_from([0, 0, 0, 1, 2, 4])),  # rechunk on load: 0 = off, else source size in rows
    )


@st.composite
def st_layout(draw, max_n=8, ntypes=None):
    unit = draw(st.sampled_from(UNITS))
    rows = draw(gen.st_rows(max_n=max_n))
    min_n = draw(st.sampled_from([0, 1, 2, 3]))
    if len(rows) < min_n:
        rows = rows + [[(rows[-1][1] if rows else 0) + i, (rows[-1][1] if rows else 0) + i + 1]
                       for i in range(min_n - len(rows))]
    tail = draw(st.integers(0, 3))
    T = max([b for _, b in rows] + [0]) + tail
    if T == 0:
        T = 1  # a run has positive duration
    nt = ntypes or draw(st.sampled_from([1, 2, 2]))
    return dict(rows=rows, T=T, unit=unit, shift=draw(st.integers(0, 5)), base=draw(st.sampled_from([0, 1, 1])),
                seed=draw(st.integers(0, 10 ** 6)),
                types=[draw(st_type(rows, T, unit)) for _ in range(nt)])


def scratch_root():
    root = os.environ.get("VERIF_SCRATCH") or os.path.join(os.path.dirname(os.path.dirname(os.path.dirname(
        os.path.abspath(__file__)))), ".work", "c10_scratch")
    os.makedirs(root, exist_ok=True)
    return root


def listing(path):
    out = []
    for root, dirs, files in os.walk(path):
        dirs.sort()
        rel = os.path.relpath(root, path)
        out.append((rel, -1))
        for fn in sorted(files):
            out.append((os.path.join(rel, fn), os.path.getsize(os.path.join(root, fn))))
    return sorted(out)


def make_source(name, dtype, chunks, spec, itemsize, kind="k"):
    """A source plugin class replaying `chunks` = [(start, end, array)]."""

    def is_ready(self, chunk_i):
        return chunk_i < len(chunks)

    def source_finished(self):
        return True

    def compute(self, chunk_i):
        a, b, d = chunks[chunk_i]
        return self.chunk(start=a, end=b, data=d.copy())

    attrs = dict(provides=name, depends_on=(), dtype=dtype, data_kind=kind, __version__="0",
                 rechunk_on_save=bool(spec["ros"]), rechunk_on_load=bool(spec["rol"]),
                 is_ready=is_ready, source_finished=source_finished, compute=compute)
    if spec["ros"]:
        attrs["chunk_target_size_mb"] = spec["ros"] * itemsize / 1e6
    if spec["rol"]:
        attrs["chunk_source_size_mb"] = spec["rol"] * itemsize / 1e6
    return type("Src_" + name, (strax.Plugin,), attrs)


class Store:
    """Everything derived from a layout descriptor; `open()` writes the data, `close()` removes it."""

    def __init__(self, L, store=(0, 1), extra_plugins=()):
        self.L = L
        self.u = u = L["unit"]
        self.base = EPOCH * L["base"]
        self.rows_g = [[a + L["shift"], b + L["shift"]] for a, b in L["rows"]]
        self.g0, self.g1 = L["shift"], L["shift"] + L["T"]
        self.t0, self.t1 = self.ns(self.g0), self.ns(self.g1)
        self.srows = [(self.ns(a), self.ns(b)) for a, b in self.rows_g]
        rng = np.random.RandomState(L["seed"])
        n = len(self.rows_g)
        self.arr = {}
        self.plugins = {}
        self.src_chunks = {}
        for ti, spec in enumerate(L["types"]):
            name = TYPE_NAMES[ti]
            x = gen.rows_to_array(self.rows_g, unit=u, enc=spec["enc"], extra=A_FIELDS if ti == 0 else B_FIELDS,
                                  ids=False)
            x["time"] += self.base
            if spec["enc"] == "endtime":
                x["endtime"] += self.base
            if ti == 0:
                x["id"] = np.arange(n)
                x["x"] = rng.randint(0, 8, n) / 2
                x["ch"] = rng.randint(-3, 4, n)
            else:
                x["w"] = rng.randint(0, 6, n)
                x["y"] = rng.randint(0, 5, n) * 0.25
                x["arr"] = rng.randint(-9, 9, (n, 2))
            self.arr[name] = x
            chunks = []
            for a, b, idx in gen.partition(L["rows"], 0, L["T"], spec["cuts"]):
                sub = x[idx[0]: idx[-1] + 1] if idx else x[:0]
                chunks.append((self.ns(a + L["shift"]), self.ns(b + L["shift"]), sub))
            self.src_chunks[name] = chunks
            self.plugins[name] = make_source(name, x.dtype, chunks, spec, x.dtype.itemsize)
        self.names = list(self.arr)
        self.store = [TYPE_NAMES[i] for i in store if i < len(L["types"])]
        self.extra_plugins = list(extra_plugins)
        self.dir = None
        self.disk = {}

    def ns(self, g):
        return self.base + g * self.u

    def context(self):
        return strax.Context(storage=[strax.DataDirectory(self.dir)],
                             register=list(self.plugins.values()) + self.extra_plugins,
                             timeout=60, allow_multiprocess=False)

    def open(self):
        self.dir = tempfile.mkdtemp(prefix="c10_", dir=scratch_root())
        ctx = self.context()
        for name in self.store:
            try:
                ctx.make(RUN, name)
            except Exception as e:
                raise Violation("setup.storing_valid_data_raised:" + type(e).__name__, f"{e!r} {self.L}") from e
            md = ctx.get_metadata(RUN, name)
            self.disk[name] = [(int(c["start"]), int(c["end"]), int(c["n"])) for c in md["chunks"]]
            d = self.disk[name]
            check(sum(c[2] for c in d) == len(self.srows) and d[0][0] == self.t0 and d[-1][1] == self.t1
                  and all(x[1] == y[0] for x, y in zip(d[:-1], d[1:])),
                  "setup.stored_layout_inconsistent", (self.L, name, d))
        return self

    def close(self):
        if self.dir:
            shutil.rmtree(self.dir, ignore_errors=True)

    def __enter__(self):
        try:
            return self.open()
        except BaseException:
            self.close()
            raise

    def __exit__(self, *a):
        self.close()

    # --- reference (column store) ---------------------------------------------------------------
    def full_columns(self, targets):
        """{field: column} of the whole-run result for the (merged) targets, in no particular order."""
        cols = {}
        for name in sorted(targets):
            x = self.arr[name]
            for f in x.dtype.names:
                cols.setdefault(f, x[f])
        return cols

    def edges_ns(self, names=None):
        e = set()
        for a, b in self.srows:
            e.update((a, b))
        for name in (names or self.disk):
            for s, t, _ in self.disk.get(name, ()):
                e.update((s, t))
        e.update((self.t0, self.t1))
        return sorted(e)

    def cand_ns(self):
        e = self.edges_ns()
        c = {x + d for x in e for d in (-1, 0, 1)}
        c.update((self.t0 - 1000 * self.u - 7, self.t1 + 1000 * self.u + 7))
        return sorted(c)

    def cand_grid(self):
        """Candidates that are whole multiples of the unit (for seconds_range)."""
        e = {(x - self.base) // self.u for x in self.edges_ns()}
        c = {x + d for x in e for d in (-1, 0, 1)}
        c.update((self.g0 - 1000, self.g1 + 1000))
        return [self.ns(g) for g in sorted(c)]

    def run_start_floor(self):
        return (self.t0 // 10 ** 9) * 10 ** 9


# ------------------------------------------------------------------------------------------------
# request descriptors
# ------------------------------------------------------------------------------------------------
def fields_of(L, targets):
    """(comparable scalar fields, all field names) available for a request of `targets`."""
    scal, allf = [], []
    for name in sorted(targets):
        ti = TYPE_NAMES.index(name)
        enc = L["types"][ti]["enc"]
        tf = ["time", "endtime"] if enc == "endtime" else ["time", "length", "dt"]
        own = ["id", "x", "ch"] if ti == 0 else ["w", "y", "arr"]
        for f in tf + own:
            if f not in allf:
                allf.append(f)
        for f in (["time"] + (["endtime"] if enc == "endtime" else []) + [o for o in own if o != "arr"]):
            if f not in scal:
                scal.append(f)
    scal.append("dur")
    return scal, allf


@st.composite
def st_atom(draw, scal, T):
    f = draw(st.sampled_from(scal))
    op = draw(st.sampled_from(sorted(OPS)))
    if f in ("time", "endtime"):
        c = draw(st.integers(0, T))
    elif f == "dur":
        c = draw(st.integers(1, 4))
    elif f in ("x", "y"):
        c = draw(st.integers(0, 8)) / 4
    elif f == "ch":
        c = draw(st.integers(-3, 3))
    else:
        c = draw(st.integers(0, 7))
    return [f, op, c]


SEL_KINDS = ["none", "none", "str", "str", "str_or", "str_and", "list", "tuple", "callable", "empty_list"]


@st.composite
def st_selection(draw, scal, T, kinds=SEL_KINDS):
    kind = draw(st.sampled_from(kinds))
    if kind in ("none", "empty_list"):
        return dict(kind=kind, atoms=[])
    n = 1 if kind in ("str",) else 2 if kind in ("str_or", "str_and") else draw(st.integers(1, 3))
    return dict(kind=kind, atoms=[draw(st_atom(scal, T)) for _ in range(n)])


@st.composite
def st_columns(draw, allf, both_p=True, none_p=True):
    kind = draw(st.sampled_from((["none", "none"] if none_p else []) + ["keep", "keep", "drop", "drop"]
                                + (["both"] if both_p else [])))
    if kind == "none":
        return dict(kind=kind)
    if kind == "keep":
        names = draw(st.lists(st.sampled_from(allf), min_size=1, max_size=len(allf), unique=True))
        return dict(kind=kind, names=names, form=draw(st.sampled_from(["list", "tuple", "str"])))
    if kind == "drop":
        names = draw(st.lists(st.sampled_from(allf), min_size=1, max_size=len(allf) - 1, unique=True))
        return dict(kind=kind, names=names, form=draw(st.sampled_from(["list", "tuple", "str"])))
    return dict(kind=kind, names=[draw(st.sampled_from(allf))], drop=[draw(st.sampled_from(allf))], form="list")


@st.composite
def st_view(draw, L, targets, level=None, forms=None):
    """How a range is presented and what else is asked: form, time_selection, selection, columns, processor."""
    sec_ok = L["unit"] in SEC_UNITS
    if forms is None:
        forms = ["time_range", "time_range", "time_within", "time_within"]
        if sec_ok and level in (None, "grid"):
            forms += ["seconds_range", "seconds_range"]
    scal, allf = fields_of(L, targets)
    return dict(
        form=draw(st.sampled_from(forms)),
        tw=draw(st.sampled_from(["endtime", "dt", "data_row"])),
        tsel=draw(st.sampled_from(["fully_contained", "touching", "fully_contained", "touching", "skip", "default"])),
        sel=draw(st_selection(scal, L["T"])),
        cols=draw(st_columns(allf)),
        proc=draw(st.sampled_from(["single_thread", "threaded_mailbox"])),
    )


def st_targets(L, multi=None):
    if len(L["types"]) == 1:
        return st.sampled_from([["s", "aa"], ["t", "aa"]])
    single = [["s", "aa"], ["s", "bb"], ["t", "bb"], ["l", "aa"]]
    both = [["l", "aa", "bb"], ["t", "bb", "aa"], ["l", "aa", "bb"]]
    if multi is None:
        return st.sampled_from(single)
    return st.sampled_from(both if multi else single)


def target_arg(tg):
    names = tg[1:]
    if tg[0] == "s":
        return names[0]
    return list(names) if tg[0] == "l" else tuple(names)


# ------------------------------------------------------------------------------------------------
# one request against the oracle
# ------------------------------------------------------------------------------------------------
def row_value(cols, f, i):
    if f == "dur":
        return int(row_end(cols, i)) - int(cols["time"][i])
    return cols[f][i].item()


def row_end(cols, i):
    if "endtime" in cols:
        return int(cols["endtime"][i])
    return int(cols["time"][i]) + int(cols["length"][i]) * int(cols["dt"][i])


def atom_const(S, atom):
    f, op, c = atom
    if f in ("time", "endtime"):
        return S.ns(S.g0 + c)
    if f == "dur":
        return c * S.u
    return c


def atom_text(S, atom, cols):
    f, op, c = atom
    name = f
    if f == "dur":
        name = "(endtime - time)" if "endtime" in cols else "(length * dt)"
    return f"{name} {op} {atom_const(S, atom)!r}"


def selection_arg(S, sel, cols):
    kind, atoms = sel["kind"], sel["atoms"]
    if kind == "none":
        return None
    if kind == "empty_list":
        return []
    texts = [atom_text(S, a, cols) for a in atoms]
    if kind == "str":
        return texts[0]
    if kind == "str_or":
        return f"({texts[0]}) | ({texts[1]})"
    if kind == "str_and":
        return f"({texts[0]}) & ({texts[1]})"
    if kind == "list":
        return texts
    if kind == "tuple":
        return tuple(texts)
    consts = [(a[0], OPS[a[1]], atom_const(S, a)) for a in atoms]

    def fn(x):
        m = np.ones(len(x), dtype=bool)
        for f, op, c in consts:
            v = (strax.endtime(x) - x["time"]) if f == "dur" else x[f]
            m &= op(v, c)
        return m

    return fn


def selection_holds(S, sel, cols, i):
    kind, atoms = sel["kind"], sel["atoms"]
    if kind in ("none", "empty_list"):
        return True
    vals = [OPS[a[1]](row_value(cols, a[0], i), atom_const(S, a)) for a in atoms]
    return any(vals) if kind == "str_or" else all(vals)


def columns_kwargs(cols_d):
    def shape(names, form):
        if form == "str" and len(names) == 1:
            return names[0]
        return tuple(names) if form == "tuple" else list(names)

    k = cols_d["kind"]
    if k == "keep":
        return dict(keep_columns=shape(cols_d["names"], cols_d["form"]))
    if k == "drop":
        return dict(drop_columns=shape(cols_d["names"], cols_d["form"]))
    if k == "both":
        return dict(keep_columns=list(cols_d["names"]), drop_columns=list(cols_d["drop"]))
    return {}


def expected_names(cols_d, allnames):
    k = cols_d["kind"]
    if k == "keep":
        return {n for n in allnames if n in cols_d["names"]}
    if k == "drop":
        return {n for n in allnames if n not in cols_d["names"]}
    return set(allnames)


def range_kwargs(S, view, r0, r1, names):
    """kwargs presenting [r0, r1) in the requested form."""
    form = view["form"]
    if form == "none":
        return {}
    if form == "time_range":
        return dict(time_range=(r0, r1))
    if form == "seconds_range":
        f = S.run_start_floor()
        s0, s1 = (r0 - f) / 1e9, (r1 - f) / 1e9
        if int(1e9 * s0) != r0 - f or int(1e9 * s1) != r1 - f:
            raise AssertionError(f"generator bug: seconds not exact {r0} {r1} {S.L}")
        return dict(seconds_range=(s0, s1))
    tw = view["tw"]
    if tw == "dt" and r1 - r0 < 2 ** 31:
        row = np.zeros(1, dtype=gen.time_dtype("dt", [("area", np.float32)]))
        row["time"], row["length"], row["dt"] = r0, r1 - r0, 1
    else:
        row = np.zeros(1, dtype=gen.time_dtype("endtime", [("n_inside", np.int32)]))
        row["time"], row["endtime"] = r0, r1
    return dict(time_within=row[0])


def resolve_range(S, view, a, b, names, level=None):
    """(r0, r1) for candidate indices a, b under the view's form."""
    form = view["form"]
    if form == "none":
        return None, None
    if form == "time_within" and view["tw"] == "data_row" and len(S.srows):
        r0, r1 = S.srows[a % len(S.srows)]
        TAGS.append("time_within-a-data-row")
        return r0, r1
    cand = S.cand_grid() if (form == "seconds_range" or level == "grid") else S.cand_ns()
    i, j = sorted((a % len(cand), b % len(cand)))
    if form == "time_within" and i == j:  # a row has positive duration
        if j + 1 < len(cand):
            j += 1
        else:
            i -= 1
    return cand[i], cand[j]


def time_keep(mode, r0, r1, t, e):
    if mode == "touching":
        return e > r0 and t < r1
    return r0 <= t and e <= r1


def query(S, ctx, tg, view, r0, r1, before=None, extra_kw=None, passthrough=()):
    """Run one get_array request and compare with the reference.  Returns a set of classes."""
    names = tg[1:]
    cols = S.full_columns(names)
    n = len(S.srows)
    classes = set()
    kw = dict(progress_bar=False, processor=view["proc"])
    kw.update(range_kwargs(S, view, r0, r1, names))
    has_range = view["form"] != "none"
    mode = view["tsel"]
    if mode != "default":
        kw["time_selection"] = mode
    mode_eff = "fully_contained" if mode == "default" else mode
    sel = selection_arg(S, view["sel"], cols)
    if view["sel"]["kind"] != "none":
        kw["selection"] = sel
    kw.update(columns_kwargs(view["cols"]))
    kw.update(extra_kw or {})

    # ---- what must happen
    disk = [S.disk[x] for x in names]
    if has_range:
        proper = [any(max(s, r0) < min(e, r1) for s, e, _ in d) for d in disk]
        must_succeed = all(proper)
        must_raise = (not any(proper)) and r0 < r1
    else:
        must_succeed, must_raise = True, False
    both_cols = view["cols"]["kind"] == "both"

    what = dict(targets=names, r=(r0, r1), view={k: v for k, v in view.items()}, disk={x: S.disk[x] for x in names},
                rows=S.srows, layout=S.L)
    try:
        got = ctx.get_array(RUN, target_arg(tg), **kw)
    except Exception as e:
        if isinstance(e, passthrough):
            raise
        if both_cols and isinstance(e, ValueError):
            classes.add("keep_and_drop_rejected")
            got = None
        elif not must_succeed and isinstance(e, ValueError):
            classes.add("no_chunk_error" if must_raise else "degenerate_range_rejected")
            got = None
        else:
            clause = "request.raised" if must_succeed else "request.wrong_error_for_range_overlapping_no_chunk"
            slug = "_".join(w for w in re.sub(r"[^a-z]+", " ", str(e).lower()).split()
                            if w not in TYPE_NAMES + ("cc", "plugin"))[:44]
            raise Violation(f"{clause}:{type(e).__name__}:{slug}",
                            "".join(f"[{t}]" for t in sorted(set(TAGS))) + f"{e!r} {what}") from e
    else:
        check(not both_cols, "columns.keep_and_drop_accepted", what)
        check(not must_raise, "range.no_error_for_range_overlapping_no_chunk", (len(got), what))
    if before is not None:
        check(listing(S.dir) == before, "storage.changed_by_partial_request", what)
    if got is None:
        return classes

    # ---- reference
    if has_range and mode_eff != "skip":
        keep = [i for i in range(n) if time_keep(mode_eff, r0, r1, int(cols["time"][i]), row_end(cols, i))]
    else:
        keep = list(range(n))
    keep = [i for i in keep if selection_holds(S, view["sel"], cols, i)]
    want_names = expected_names(view["cols"], list(cols))
    check(set(got.dtype.names) == want_names, "columns.wrong_field_set", (got.dtype.names, sorted(want_names), what))

    if has_range and mode_eff == "skip":
        # bounds only: a contiguous run (w.r.t. the selected rows) of the full result containing every
        # selected row that touches the range
        touch = [i for i in keep if time_keep("touching", r0, r1, int(cols["time"][i]), row_end(cols, i))]
        ok = False
        for lo in range(len(keep) + 1):
            hi = lo + len(got)
            if hi > len(keep):
                break
            idx = keep[lo:hi]
            if set(touch) <= set(idx) and _same(got, cols, idx, want_names):
                ok = True
                break
        check(ok, "skip.not_a_contiguous_superset_of_touching_rows", (got.tolist(), touch, what))
        classes.add("skip_with_range")
        return classes

    check(len(got) == len(keep), "result.wrong_rows",
          (f"got {len(got)} rows want {len(keep)}", got.tolist(), keep, what))
    check(_same(got, cols, keep, want_names), "result.wrong_values", (got.tolist(), keep, what))
    if has_range:
        classes.add("empty_result" if not keep else "nonempty_result")
        if r0 == r1:
            classes.add("degenerate_range_answered")
        if any(t < r0 < e for t, e in S.srows):
            classes.add("r0_inside_row")
        if any(t < r1 < e for t, e in S.srows):
            classes.add("r1_inside_row")
        for d in disk:
            inner = [s for s, e, _ in d[1:]]
            if r0 in inner:
                classes.add("r0_on_chunk_edge")
            if r1 in inner:
                classes.add("r1_on_chunk_edge")
            if any(s == e and r0 < s < r1 for s, e, _ in d):
                classes.add("zero_duration_chunk_in_range")
        if 0 < len(keep) < n:
            classes.add("proper_subset")
    return classes


def _same(got, cols, idx, names):
    idx = np.asarray(idx, dtype=np.int64)
    for f in names:
        want = cols[f][idx]
        g = got[f]
        if g.dtype != want.dtype or g.shape != want.shape:
            return False
        if np.ascontiguousarray(g).tobytes() != np.ascontiguousarray(want).tobytes():
            return False
    return True


def view_classes(view, tg):
    c = {"form:" + view["form"], "tsel:" + view["tsel"], "sel:" + view["sel"]["kind"], "cols:" + view["cols"]["kind"],
         "proc:" + view["proc"], "targets:" + ("both" if len(tg) > 2 else "single")}
    if view["form"] == "time_within":
        c.add("tw:" + view["tw"])
    return c


def adjacent(S, r, names):
    return r is not None and any(abs(r - e) <= 1 for e in S.edges_ns(names))


def layout_classes(S, names):
    c = set()
    for x in names:
        d = S.disk[x]
        spec = S.L["types"][TYPE_NAMES.index(x)]
        if len(d) >= 2:
            c.add("ge2_chunks_on_disk")
        if any(s == e for s, e, _ in d):
            c.add("zero_duration_chunk_on_disk")
        if spec["ros"]:
            c.add("rechunk_on_save")
            if [(s, e) for s, e, _ in d] != [(s, e) for s, e, _ in S.src_chunks[x]]:
                c.add("saver_changed_layout")
        if spec["rol"]:
            c.add("rechunk_on_load")
        c.add("enc:" + spec["enc"])
    if len(names) == 2 and [(s, e) for s, e, _ in S.disk[names[0]]] != [(s, e) for s, e, _ in S.disk[names[1]]]:
        c.add("targets_on_different_layouts")
    rows = S.srows
    if any(rows[i + 1][0] < max(r[1] for r in rows[: i + 1]) for i in range(len(rows) - 1)):
        c.add("overlapping_rows")
    if S.base:
        c.add("epoch_times")
    c.add("unit:" + str(S.u))
    return c


def check_full(S, ctx, names):
    """The unrestricted request returns the reference (precondition of everything else)."""
    for x in names:
        try:
            got = ctx.get_array(RUN, x, progress_bar=False)
        except Exception as e:
            raise Violation("setup.full_load_raised:" + type(e).__name__, f"{e!r} {S.L} {S.disk}") from e
        check(gen.arrays_equal(got, S.arr[x]), "setup.full_load_differs", (S.L, x))


# ------------------------------------------------------------------------------------------------
# sub-check `ranges`: one layout, many independent single-target requests
# ------------------------------------------------------------------------------------------------
@st.composite
def st_ranges(draw):
    L = draw(st_layout())
    qs = []
    for _ in range(draw(st.integers(18, 30))):
        tg = draw(st_targets(L))
        forms = None
        if draw(st.integers(0, 9)) == 0:
            forms = ["none"]
        qs.append(dict(tg=tg, a=draw(st.integers(0, 199)), b=draw(st.integers(0, 199)),
                       view=draw(st_view(L, tg[1:], forms=forms))))
    return dict(layout=L, queries=qs)


def run_ranges(d):
    del TAGS[:]
    with Store(d["layout"]) as S:
        ctx = S.context()
        check_full(S, ctx, S.names)
        before = listing(S.dir)
        classes = layout_classes(S, S.names)
        nt = False
        inner_nt = 0
        for q in d["queries"]:
            del TAGS[:]
            tg, view = q["tg"], q["view"]
            r0, r1 = resolve_range(S, view, q["a"], q["b"], tg[1:])
            classes |= query(S, ctx, tg, view, r0, r1, before=before)
            classes |= view_classes(view, tg)
            if (adjacent(S, r0, tg[1:]) or adjacent(S, r1, tg[1:])) and len(S.disk[tg[1]]) >= 2:
                nt = True
                inner_nt += 1
    return dict(nt=nt, classes=sorted(classes), inner_evaluations=len(d["queries"]), inner_nontrivial=inner_nt)


# ------------------------------------------------------------------------------------------------
# sub-check `sweep`: every pair of candidate endpoints, both modes, one single target
# ------------------------------------------------------------------------------------------------
@st.composite
def st_sweep(draw):
    L = draw(st_layout(max_n=6))
    for t in L["types"]:
        t["cuts"] = t["cuts"][:4]
    tg = draw(st_targets(L))
    sec_ok = L["unit"] in SEC_UNITS
    form = draw(st.sampled_from(["time_range", "time_range", "time_within"] + (["seconds_range"] * 2 if sec_ok else [])))
    scal, allf = fields_of(L, tg[1:])
    view = dict(form=form, tw=draw(st.sampled_from(["endtime", "dt"])), tsel="fully_contained",
                sel=draw(st.sampled_from([dict(kind="none", atoms=[])] * 3 + [None])) or draw(st_selection(scal, L["T"])),
                cols=draw(st_columns(allf, both_p=False)),
                proc=draw(st.sampled_from(["single_thread"] * 4 + ["threaded_mailbox"])))
    return dict(layout=L, tg=tg, view=view, level=draw(st.sampled_from(["ns", "grid", "grid"])))


def run_sweep(d):
    del TAGS[:]
    tg = d["tg"]
    with Store(d["layout"]) as S:
        ctx = S.context()
        check_full(S, ctx, tg[1:])
        before = listing(S.dir)
        classes = layout_classes(S, tg[1:])
        grid = d["view"]["form"] == "seconds_range" or d["level"] == "grid"
        cand = S.cand_grid() if grid else S.cand_ns()
        if len(cand) > 24:  # the threaded processor costs ~5x more per request: keep it for the smaller sweeps
            d = dict(d, view=dict(d["view"], proc="single_thread"))
        npairs = 0
        for i, r0 in enumerate(cand):
            for r1 in cand[i:]:
                if d["view"]["form"] == "time_within" and r0 == r1:
                    continue
                for mode in ("fully_contained", "touching"):
                    view = dict(d["view"], tsel=mode)
                    classes |= query(S, ctx, tg, view, r0, r1)
                    npairs += 1
        check(listing(S.dir) == before, "storage.changed_by_partial_request", d)
        classes |= view_classes(d["view"], tg)
        classes.add("pairs:" + ("<300" if npairs < 300 else "<1000" if npairs < 1000 else ">=1000"))
        classes.add("level:" + ("grid" if grid else "ns"))
        nt = len(S.disk[tg[1]]) >= 2
    return dict(nt=nt, classes=sorted(classes), inner_evaluations=npairs, inner_nontrivial=npairs if nt else 0)


# ------------------------------------------------------------------------------------------------
# sub-check `multi`: both same-kind targets together, one range, several presentations
# ------------------------------------------------------------------------------------------------
STEER = bool(os.environ.get("C10_STEER"))  # F13 is fixed in /repo: no steering unless explicitly requested


@st.composite
def st_multi(draw):
    L = draw(st_layout(ntypes=2))
    kind = draw(st.sampled_from(["cand"] * 8 + ["data_row", "none"]))
    level = draw(st.sampled_from(["ns", "ns", "grid"]))
    if kind == "none":
        forms = ["none"]
    else:
        forms = ["time_range", "time_range", "time_within"]
        if L["unit"] in SEC_UNITS and (level == "grid" or kind == "data_row"):
            forms += ["seconds_range", "seconds_range"]
    views = []
    for _ in range(draw(st.integers(2, 5))):
        tg = draw(st_targets(L, multi=True))
        v = draw(st_view(L, tg[1:], forms=forms))
        if v["tw"] == "data_row":
            v["tw"] = "endtime"
        views.append(dict(tg=tg, view=v))
    return dict(layout=L, kind=kind, a=draw(st.integers(0, 199)), b=draw(st.integers(0, 199)), level=level,
                views=views)


def multi_range(S, d):
    if d["kind"] == "none":
        return None, None
    if d["kind"] == "data_row" and S.srows:
        return S.srows[d["a"] % len(S.srows)]
    # (a `data_row` request on a run without rows falls back to grid candidates: its views may use seconds_range)
    cand = S.cand_grid() if d["level"] == "grid" or d["kind"] == "data_row" else S.cand_ns()
    i, j = sorted((d["a"] % len(cand), d["b"] % len(cand)))
    return cand[i], cand[j]


def run_multi(d):
    del TAGS[:]
    with Store(d["layout"]) as S:
        ctx = S.context()
        check_full(S, ctx, S.names)
        before = listing(S.dir)
        classes = layout_classes(S, S.names)
        r0, r1 = multi_range(S, d)
        # steering around the recorded findings (shape of layout + range + target order)
        for order in sorted({tuple(v["tg"][1:]) for v in d["views"]}):
            del TAGS[:]
            f = steer_away(S, r0, r1, order)
            if f and STEER and not d.get("nosteer"):  # (committed replays of the findings carry `nosteer`)
                raise Excluded(f)
        nt = False
        inner = 0
        for v in d["views"]:
            del TAGS[:]
            tg, view = v["tg"], v["view"]
            q0, q1 = r0, r1
            if view["form"] == "time_within" and r0 == r1:  # a row has positive duration
                view = dict(view, form="time_range")
            multi_tags(S, q0, q1, tg[1:])
            classes |= query(S, ctx, tg, view, q0, q1, before=before)
            classes |= view_classes(view, tg)
            classes |= {t for t in TAGS}
            inner += 1
        if (adjacent(S, r0, S.names) or adjacent(S, r1, S.names)) and min(len(S.disk[x]) for x in S.names) >= 2:
            nt = True
        classes.add("range:" + d["kind"])
    return dict(nt=nt, classes=sorted(classes), inner_evaluations=inner, inner_nontrivial=inner if nt else 0)


def loaded_edges(d, r0, r1, srows):
    """Chunk (start, end) pairs the loader hands out for [r0, r1) according to its docstring: the chunks partially
    overlapping the range, cut at the latest admissible time <= r0 and, if no row straddles it, at r1.
    (Rechunking on load, which may cut these further, is not modelled.)"""
    out = []
    for s, e, n in d:
        if r0 is not None and (e <= r0 or r1 <= s):
            continue
        if r0 is not None:
            inside = [(a, b) for a, b in srows if a >= s and b <= e]
            if s < r0:
                adm = [t for t in sorted({s, r0} | {a for a, _ in inside}) if t <= r0 and gen.admissible(inside, t)]
                s = max(adm)
            if e > r1 and gen.admissible(inside, r1):
                e = max(r1, s)
        out.append((s, e))
    return out


def multi_tags(S, r0, r1, order):
    """Facts about a two-target request, used to recognise and to steer around the recorded findings.
    The pacemaker of the merging plugin is the dependency whose first chunk ends first (ties: first named)."""
    L = {x: loaded_edges(S.disk[x], r0, r1, S.srows) for x in order}
    if not all(L.values()):
        return L, None
    rol = any(S.L["types"][TYPE_NAMES.index(x)]["rol"] for x in order)
    pm = order[0] if L[order[0]][0][1] <= L[order[1]][0][1] else order[1]
    other = order[1] if pm == order[0] else order[0]
    if rol:
        TAGS.append("rechunk-on-load")
    if r1 is not None and not gen.admissible(S.srows, r1):
        TAGS.append("r1-inside-a-row")
    if L[pm][-1][1] != L[other][-1][1]:
        TAGS.append("loaders-end-at-different-times")
        TAGS.append("pacemaker-ends-later" if L[pm][-1][1] > L[other][-1][1] else "pacemaker-ends-earlier")
    for x in order:
        if L[x][-1][0] == L[x][-1][1]:
            TAGS.append("trailing-zero-duration-chunk:" + ("pacemaker" if x == pm else "non-pacemaker"))
    return L, pm


def steer_away(S, r0, r1, order):
    """Finding id when (layout, range, target order) has the shape of a recorded finding, else None.
    (F14 - trailing zero-duration chunk of a non-pacemaker dependency - was found here too; it is fixed in the
    tree, so those shapes are searched, see replay/C10-F14-*.json.)"""
    multi_tags(S, r0, r1, order)
    t = set(TAGS)
    rol = "rechunk-on-load" in t  # then the pacemaker is not predictable from the disk layout alone
    if "r1-inside-a-row" in t and "loaders-end-at-different-times" in t and (rol or "pacemaker-ends-later" in t):
        return "F13"
    return None


@signature("F13_multi_target_right_edge_inside_row_on_different_layouts")
def _sig_f13(sub, desc, bucket, message):
    """Several same-kind targets stored with different chunk layouts, right edge of the range inside a row: the
    loaders' strict right split fails on different chunks, so they end at different times and the merging plugin
    raises instead of returning the filtered rows."""
    return (sub == "multi" and bucket.startswith("clause:request.raised:RuntimeError")
            and "[r1-inside-a-row]" in message and "[loaders-end-at-different-times]" in message
            and ("ended prematurely" in message or "terminated without fetching last" in message))


# ------------------------------------------------------------------------------------------------
# sub-check `unsaved`: partial requests of data that is not stored must not store anything
# ------------------------------------------------------------------------------------------------
def make_derived(save_when, kind):
    dt = gen.time_dtype("endtime", [("v", np.int64)])

    def compute(self, **kw):
        x = kw[list(kw)[0]]
        out = np.zeros(len(x), dt)
        out["time"] = x["time"]
        out["endtime"] = strax.endtime(x)
        out["v"] = x["id"] * 3 + 1
        return out

    return type("Derived_cc", (strax.Plugin,), dict(
        provides="cc", depends_on=("aa",), dtype=dt, data_kind=kind, __version__="0",
        save_when=getattr(strax.SaveWhen, save_when), rechunk_on_save=False, compute=compute))


@st.composite
def st_unsaved(draw):
    L = draw(st_layout(ntypes=1))
    L["types"][0]["rol"] = 0
    target = draw(st.sampled_from(["cc", "cc", "aa"]))
    save_when = draw(st.sampled_from(["EXPLICIT", "TARGET", "ALWAYS"]))
    scal, allf = (["time", "endtime", "v", "dur"], ["time", "endtime", "v"]) if target == "cc" else fields_of(L, ["aa"])
    # (a source that is not stored cannot be asked for a time range at all)
    partial = draw(st.sampled_from(["range", "range", "selection", "columns", "range+selection"] if target == "cc"
                                   else ["selection", "columns"]))
    sel = draw(st_selection(scal, L["T"], kinds=[k for k in SEL_KINDS if k not in ("none", "empty_list")])) \
        if "selection" in partial else dict(kind="none", atoms=[])
    cols = draw(st_columns(allf, both_p=False, none_p=False)) if partial == "columns" else dict(kind="none")
    return dict(layout=L, target=target, save_when=save_when, partial=partial, sel=sel, cols=cols,
                a=draw(st.integers(0, 199)), b=draw(st.integers(0, 199)),
                tsel=draw(st.sampled_from(["fully_contained", "touching"])),
                proc=draw(st.sampled_from(["single_thread", "threaded_mailbox"])),
                ask_save=draw(st.booleans()))


def run_unsaved(d):
    del TAGS[:]
    L = d["layout"]
    target = d["target"]
    stored = (0,) if target == "cc" else ()
    with Store(L, store=stored, extra_plugins=[make_derived(d["save_when"], "k")]) as S:
        ctx = S.context()
        classes = {"target:" + target, "partial:" + d["partial"], "save_when:" + d["save_when"]}
        # reference for the requested data type
        if target == "cc":
            ref = np.zeros(len(S.srows), gen.time_dtype("endtime", [("v", np.int64)]))
            ref["time"] = S.arr["aa"]["time"]
            ref["endtime"] = gen.endtimes(S.arr["aa"])
            ref["v"] = np.arange(len(S.srows)) * 3 + 1
            S.arr["cc"] = ref
            S.disk["cc"] = S.disk["aa"]
        else:
            S.disk["aa"] = [(s, e, len(x)) for s, e, x in S.src_chunks["aa"]]
        before = listing(S.dir)
        has_range = "range" in d["partial"]
        view = dict(form="time_range" if has_range else "none", tw="endtime", tsel=d["tsel"], sel=d["sel"],
                    cols=d["cols"], proc=d["proc"])
        r0 = r1 = None
        if has_range:
            r0, r1 = resolve_range(S, view, d["a"], d["b"], [target])
        save = ()
        if d["ask_save"] and target == "cc":
            save = ("cc",)
        # the request itself (through the same oracle); DataNotAvailable is the documented answer for a time range
        # on data that would normally be saved
        try:
            classes |= query(S, ctx, ["s", target], view, r0, r1, extra_kw=dict(save=save) if save else None,
                             passthrough=(strax.DataNotAvailable,))
            classes.add("answered")
        except strax.DataNotAvailable:
            check(has_range and d["save_when"] in ("TARGET", "ALWAYS") and target == "cc",
                  "unsaved.unexpected_DataNotAvailable", d)
            classes.add("refused_DataNotAvailable")
        after = listing(S.dir)
        check(after == before, "storage.partial_request_saved_something",
              (sorted(set(after) - set(before))[:6], d))
        # control: the unrestricted request afterwards returns the full reference (nothing partial is picked up)
        ctx2 = S.context()
        try:
            got = ctx2.get_array(RUN, target, progress_bar=False, save=save)
        except Exception as e:
            raise Violation("unsaved.full_request_afterwards_raised:" + type(e).__name__, f"{e!r} {d}") from e
        check(gen.arrays_equal(got, S.arr[target]), "unsaved.full_request_afterwards_differs", d)
        saved_now = listing(S.dir) != before
        if saved_now:
            classes.add("control_full_request_saves")
        nt = saved_now
    return dict(nt=nt, classes=sorted(classes), inner_evaluations=2, inner_nontrivial=2 if nt else 0)


SUBCHECKS = [
    SubCheck("ranges", run_ranges, strategy=st_ranges, quick=450, thorough=16000, sample_cap=1500,
             required_classes=("no_chunk_error", "r0_inside_row", "r1_inside_row", "r0_on_chunk_edge",
                               "r1_on_chunk_edge", "form:seconds_range", "proc:threaded_mailbox", "tsel:touching")),
    SubCheck("sweep", run_sweep, strategy=st_sweep, quick=64, thorough=1200, min_per_shard=3, sample_cap=1500),
    SubCheck("multi", run_multi, strategy=st_multi, quick=800, thorough=14000, sample_cap=1500),
    SubCheck("unsaved", run_unsaved, strategy=st_unsaved, quick=500, thorough=8000, sample_cap=1500),
]
