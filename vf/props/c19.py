"""C19 - peak clustering, summing, merging and splitting conserve hits, area and time.

Oracles live in vf/ref/c19_peaks_ref.py (naive models written from the docstrings): gap clustering with
the duration rule, per-hit area bookkeeping, dense sum waveforms built from a ground-truth pulse table,
the documented "shorten, never extend" down-sampling, merge / replace_merged on Python lists, tiling of
split children, and the defining formulas of the waveform helpers.

Float tolerances (stated): quantities accumulated in float32 by strax (area, area_per_channel, waveform
samples) are compared with atol = rtol = 1e-5 * (number of summed terms) relative to the largest partial
sum; float64 helpers (moving average, goodness of split) with rtol 1e-9; area-fraction indices (float32
results) with 2e-5 relative.  Everything else is exact.
"""
import itertools

import numpy as np
from hypothesis import strategies as st

import strax
from strax.processing import peak_splitting as ps
from vf.core import Excluded, SubCheck, Violation
from vf.findings import signature
from vf.ref import c19_peaks_ref as ref

PROPERTY_ID = "C19"
LEVEL = "exploration"
RULE = (
    "Descriptors are drawn from Hypothesis strategies: hit sets (1-12 hits, 4 channels, dt in {1,2,10}) with gap "
    "threshold, extensions, max duration, area/channel cuts (find_peaks; find_peak_groups on seeded hit sets in the "
    "thorough tier); 1-6 pulses cut into 6-sample records with hits and integration bounds, 8-sample peak buffers so "
    "that down-sampling happens (sum_waveform, split_peaks with both splitters, 1-3 iterations); lists of 2-6 disjoint "
    "peaks with mixed dt, merge index sets and `merged` masks (merge_peaks + replace_merged; index sets enumerated "
    "exhaustively for 2-5 peaks, thorough: every admissible mask and the endtime-field dtype); free-form merged "
    "intervals over <=8 originals (replace_merged); waveforms of <=9 samples over a 5-letter alphabet (moving average, "
    "goodness of split, area fractions / widths / centre time, highest density region), and ALL waveforms of <=6 "
    "(quick) / <=8 (thorough) samples over {0,1,3}.  A case is non-trivial when it has >=2 peaks, a duration-rule "
    "split, down-sampling, a merge of >=2 peaks, a real split, wing >= 1 with len > 2*wing+1, or (helpers) >=3 "
    "samples with >=2 non-zero.  distinct = distinct descriptor hashes."
)
ASSUMPTIONS = [
    "hits sorted by time, one common dt, positive length, channel < len(adc_to_pe); gap_threshold > left+right "
    "extension (asserted by strax); extensions multiples of dt; max_duration >= longest hit + 2*left + right",
    "a split that keeps the merged span <= max_duration but exceeds strax's conservative estimate (left extension "
    "counted twice) is accepted either way (classes split_band / dur_band_ambiguous)",
    "sum_waveform input: records of one dt cut from pulses, hits with time/length equal to their integration "
    "region inside one pulse, sorted by time; peaks from find_peaks on the hit cores; only hits whose core lies in a peak",
    "down-sampling drops a fractional tail (documented in store_downsampled_waveform); the oracle models that; in "
    "split_peaks a child may therefore end up to one of its own (coarser) samples early, and with do_iterations > 1 "
    "a down-sampled intermediate child may have lost < ceil(parent samples / buffer) original samples",
    "merge_peaks input: >=2 disjoint time-sorted peaks, dt multiples of a base dt; waveform / geometry are compared "
    "exactly only when all peak times are aligned to the coarsest dt, otherwise only start, end band, areas, n_hits",
    "replace_merged input: disjoint sorted originals; merged intervals disjoint, sorted, each covering at least one "
    "original, no original touched by two of them (what merge_peaks produces)",
    "waveform helpers: non-negative samples, area field consistent with the data, fractions ascending in [0, 1]; "
    "area-fraction indices on a plateau of the cumulative area (zero samples) may be anywhere on the plateau",
    "natural_breaks_gof: the filter wing in samples is taken as filter_wing_width // dt - 1 (strax's reading of "
    "'as close as we can get'); waveforms with zero spread are skipped (division by zero)",
    "highest_density_region: fractions ascending in (0, 1], total area > 0 (else ValueError is demanded), "
    "_buffer_size in {1, 2, 3, 10}; amplitudes are checked for only_upper_part=True (the documented meaning) only, "
    "for only_upper_part=False the region is checked as a validity predicate (top set, holds >= fraction, minimal by level)",
]

N_CH = 4
N_BUF = 8
PEAK_DTYPE = np.dtype(strax.peak_dtype(n_channels=N_CH, n_sum_wv_samples=N_BUF, n_widths=11))
TO_PE = [np.array([1.0, 2.0, 0.5, 1.0]), np.array([1.0, 0.1, 1.7, 3.0])]
AREAS = [0.0, 1.0, 2.5, 10.0, 0.1]


def check(cond, clause, detail="", tags=()):
    if not cond:
        raise Violation(clause, "".join(f"[{t}]" for t in sorted(set(tags)))
                        + (detail if isinstance(detail, str) else repr(detail)))


def close(a, b, n=1, scale=None):
    """float32 accumulation tolerance: 1e-5 * n relative to the scale of the partial sums."""
    a = np.asarray(a, dtype=np.float64)
    b = np.asarray(b, dtype=np.float64)
    s = max(float(np.max(np.abs(b))) if b.size else 0.0, float(scale or 0.0), 1e-30)
    return bool(np.all(np.abs(a - b) <= 1e-5 * max(n, 1) * s))


def endtime(p):
    return p["time"].astype(np.int64) + p["length"].astype(np.int64) * p["dt"].astype(np.int64)


# ------------------------------------------------------------------------------------------------
# find_peaks
# ------------------------------------------------------------------------------------------------
@st.composite
def st_hitset(draw, max_n=12):
    dt = draw(st.sampled_from([1, 2, 10]))
    n = draw(st.integers(1, max_n))
    shape = draw(st.sampled_from(["mixed", "mixed", "dense", "sparse"]))
    hi = {"mixed": 7, "dense": 3, "sparse": 12}[shape]
    hits = []
    for _ in range(n):
        hits.append([draw(st.integers(0, hi)), draw(st.integers(1, 5)), draw(st.integers(0, N_CH - 1)),
                     draw(st.integers(0, len(AREAS) - 1))])
    le = draw(st.integers(0, 2))
    re = draw(st.integers(0, 2))
    k = draw(st.integers(1, 5))
    odd = draw(st.booleans())
    return dict(dt=dt, t0=draw(st.integers(0, 5)), hits=hits, le=le, re=re, gap_k=k, gap_odd=odd,
                maxdur=draw(st.one_of(st.none(), st.integers(0, 30))),
                min_area=draw(st.sampled_from([0, 0, 0, 1, 5, 2.5])), min_ch=draw(st.sampled_from([1, 1, 1, 2, 3])),
                to_pe=draw(st.integers(0, 1)), groups=False)


def hits_of(d):
    """[(t0, t1, ch, area)] and the strax hit array of a hit-set descriptor."""
    dt = d["dt"]
    t = d["t0"] * dt
    lst = []
    for g, ln, ch, ai in d["hits"]:
        t += g * dt
        lst.append((t, t + ln * dt, ch, AREAS[ai]))
    h = np.zeros(len(lst), dtype=strax.hit_dtype)
    for i, (a, b, ch, ar) in enumerate(lst):
        h[i]["time"], h[i]["length"], h[i]["dt"], h[i]["channel"], h[i]["area"] = a, (b - a) // dt, dt, ch, ar
    return lst, h


def fp_params(d):
    dt = d["dt"]
    le, re = d["le"] * dt, d["re"] * dt
    gap = le + re + d["gap_k"] * dt
    if d["gap_odd"] and dt > 1:
        gap -= dt // 2
    longest = max(h[1] for h in d["hits"]) * dt
    base = longest + 2 * le + re
    maxdur = 10_000_000 if d["maxdur"] is None else base + d["maxdur"] * dt
    return le, re, gap, maxdur


def f17_shape(lst, bounds, le, re):
    """A duration-forced split between hits closer than left+right extension."""
    return any(kind in ("dur", "band") and lst[i][0] - cend < le + re for kind, i, cend in bounds)


def match_alternative(got, lst, alts, le, re, to_pe, min_area, min_ch):
    """Find the acceptable clustering that explains the returned peaks; returns (expected kept, bounds)."""
    gt = [(int(a), int(b), int(n)) for a, b, n in zip(got["time"], endtime(got), got["n_hits"])]
    first = None
    for clusters, bounds in alts:
        exp = ref.peaks_of(lst, clusters, le, re, to_pe, N_CH, min_area, min_ch)
        for e in exp:
            tol = 1e-5 * max(1.0, abs(e["area"])) * e["n_hits"]
            e["keep"] = (e["keep_area"] and e["keep_ch"])
            e["amb"] = abs(e["area"] - min_area) <= tol and e["keep_ch"]
        if first is None:
            first = exp
        # greedy alignment; ambiguous (float tie on the area cut) peaks may be present or absent
        k = 0
        ok = True
        kept = []
        for e in exp:
            key = (e["time"], e["endtime"], e["n_hits"])
            if k < len(gt) and gt[k] == key and (e["keep"] or e["amb"]):
                kept.append(e)
                k += 1
            elif e["keep"] and not e["amb"]:
                ok = False
                break
        if ok and k == len(gt):
            return kept, bounds, exp
    return None, None, first


def run_find_peaks(d):
    lst, h = hits_of(d)
    le, re, gap, maxdur = fp_params(d)
    to_pe = TO_PE[d["to_pe"]]
    alts = ref.clusterings(lst, gap, le, re, maxdur)
    classes = set()
    if d["groups"]:
        # find_peak_groups: boundaries of the same clustering, no cuts
        t, e = strax.find_peak_groups(h, gap, left_extension=le, right_extension=re, max_duration=maxdur)
        got = np.zeros(len(t), dtype=PEAK_DTYPE)
        got["time"], got["dt"], got["length"] = t, 1, e - t
        want = None
        for clusters, bounds in alts:
            exp = ref.peaks_of(lst, clusters, le, re, np.ones(N_CH), N_CH, 0, 1)
            if [(x["time"], x["endtime"]) for x in exp] == list(zip(t.tolist(), e.tolist())):
                want = (exp, bounds)
                break
        check(want is not None, "find_peak_groups.boundaries",
              (d, list(zip(t.tolist(), e.tolist())), [(x["time"], x["endtime"]) for x in
                                                      ref.peaks_of(lst, alts[0][0], le, re, np.ones(N_CH), N_CH, 0, 1)]))
        classes.add("groups")
        kept, bounds = want
    else:
        got = strax.find_peaks(h, to_pe, gap_threshold=gap, left_extension=le, right_extension=re,
                               min_area=d["min_area"], min_channels=d["min_ch"], max_duration=maxdur,
                               result_dtype=PEAK_DTYPE)
        kept, bounds, exp = match_alternative(got, lst, alts, le, re, to_pe, d["min_area"], d["min_ch"])
        check(kept is not None, "find_peaks.clustering",
              (d, "got (time, endtime, n_hits)", [(int(a), int(b), int(n)) for a, b, n in
                                                   zip(got["time"], endtime(got), got["n_hits"])],
               "expected", [(e["time"], e["endtime"], e["n_hits"], e["keep"]) for e in exp]))
        if any(not (e["keep_area"] and e["keep_ch"]) for e in exp):
            classes.add("cut_removed_peak")
        if any(not e["keep_ch"] for e in exp):
            classes.add("cut_channels")
        if any(not e["keep_area"] for e in exp):
            classes.add("cut_area")
        for q, e in zip(got, kept):
            check(q["dt"] == d["dt"] and q["channel"] == -1, "find_peaks.dt_or_channel", (d, int(q["dt"])))
            check(close(q["area"], e["area"], e["n_hits"], np.abs(e["apc"]).sum()), "find_peaks.area",
                  (d, float(q["area"]), e["area"]))
            check(close(q["area_per_channel"], e["apc"], e["n_hits"]), "find_peaks.area_per_channel",
                  (d, q["area_per_channel"].tolist(), e["apc"].tolist()))
            # each peak spans its hits plus the extensions
            mem = [lst[i] for i in e["members"]]
            check(int(q["time"]) == min(m[0] for m in mem) - le and
                  int(q["time"]) + int(q["length"]) * int(q["dt"]) == max(m[1] for m in mem) + re,
                  "find_peaks.span", (d, int(q["time"]), int(q["length"])))
    kinds = {k for k, _, _ in bounds}
    classes.update("split_" + k for k in kinds)
    if f17_shape(lst, bounds, le, re):
        classes.add("dur_split_closer_than_extensions")
    if len(got) >= 2:
        classes.add("ge2_peaks")
    if len(alts) > 1:
        classes.add("dur_band_ambiguous")
    if any(lst[i + 1][0] < max(x[1] for x in lst[: i + 1]) for i in range(len(lst) - 1)):
        classes.add("overlapping_hits")
    # ordered and disjoint (last: everything else has been compared by now)
    t, e = got["time"].astype(np.int64), endtime(got)
    # an overlapping pair is the recorded finding F17 only when the cluster of the earlier peak was closed by a
    # duration-forced split in front of a hit closer than left + right extension to it (clusters in between may
    # have been removed by the cuts)
    bmap = {i: (kind, cend) for kind, i, cend in bounds}
    over = [k for k in range(len(got) - 1) if t[k + 1] < e[k]]

    def forced_close(k):
        kind, cend = bmap.get(kept[k]["members"][-1] + 1, ("", 0))
        return kind in ("dur", "band") and lst[kept[k]["members"][-1] + 1][0] - cend < le + re

    excused = bool(over) and all(forced_close(k) for k in over)
    tags = ["dur-split-closer-than-extensions"] if excused else []
    check(np.all(t[1:] >= t[:-1]), "find_peaks.not_time_ordered", (d, t.tolist()), tags)
    check(np.all(t[1:] >= e[:-1]), "find_peaks.peaks_overlap",
          (d, "peaks [time, endtime)", list(zip(t.tolist(), e.tolist()))), tags)
    return dict(nt=len(got) >= 2 or bool(kinds & {"dur", "band"}), classes=sorted(classes))


def enum_groups(tier, seed):
    """find_peak_groups on seeded hit sets - thorough tier only (it compiles find_peaks for the default peak dtype)."""
    if tier != "thorough":
        return
    rng = np.random.RandomState(7919 * seed + 19)
    for _ in range(6000):
        n = int(rng.randint(1, 13))
        hi = int(rng.choice([3, 7, 12]))
        yield dict(dt=int(rng.choice([1, 2, 10])), t0=int(rng.randint(0, 6)),
                   hits=[[int(rng.randint(0, hi + 1)), int(rng.randint(1, 6)), int(rng.randint(0, N_CH)), int(rng.randint(0, len(AREAS)))]
                         for _ in range(n)],
                   le=int(rng.randint(0, 3)), re=int(rng.randint(0, 3)), gap_k=int(rng.randint(1, 6)), gap_odd=bool(rng.randint(0, 2)),
                   maxdur=None if rng.randint(0, 3) == 0 else int(rng.randint(0, 31)), min_area=0, min_ch=1, to_pe=0, groups=True)


@signature("F17_duration_split_overlap")
def _sig_f17(sub, desc, bucket, message):
    """find_peaks: a split forced by max_duration between two hits closer than left+right extension gives two
    peaks whose extensions overlap."""
    if bucket != "clause:find_peaks.peaks_overlap" or "[dur-split-closer-than-extensions]" not in message:
        return False
    if sub not in ("find_peaks", "peak_groups"):
        return False
    lst, _ = hits_of(desc)
    le, re, gap, maxdur = fp_params(desc)
    return any(f17_shape(lst, b, le, re) for _, b in ref.clusterings(lst, gap, le, re, maxdur))


# ------------------------------------------------------------------------------------------------
# world of pulses -> records -> hits (for sum_waveform and split_peaks)
# ------------------------------------------------------------------------------------------------
SPR = 6  # samples per record
REC_DTYPE = np.dtype(strax.record_dtype(SPR))
SAMPLES = [0, 0, 1, 2, 3, 7]
FPART = [0.0, 0.25, 0.5]


@st.composite
def st_world(draw, max_pulses=6):
    dt = draw(st.sampled_from([1, 2, 10]))
    n = draw(st.integers(1, max_pulses))
    pulses = []
    for _ in range(n):
        ln = draw(st.integers(1, 14))
        pulses.append(dict(gap=draw(st.integers(0, 9)), ch=draw(st.integers(0, N_CH - 1)),
                           data=[draw(st.integers(0, len(SAMPLES) - 1)) for _ in range(ln)],
                           fp=draw(st.integers(0, 2)), shift=draw(st.sampled_from([0, 0, 0, 1]))))
    return dict(dt=dt, t0=draw(st.integers(0, 3)), pulses=pulses, thr=draw(st.integers(1, 2)),
                xl=draw(st.integers(0, 2)), xr=draw(st.integers(0, 2)),
                le=draw(st.integers(0, 2)), re=draw(st.integers(0, 2)), gap_k=draw(st.integers(1, 6)),
                maxdur=draw(st.sampled_from([None, None, None, None, 2, 12])),
                min_ch=draw(st.sampled_from([1, 1, 1, 2])), to_pe=draw(st.integers(0, 1)),
                n_top=draw(st.sampled_from([0, 2, 4])), top=draw(st.booleans()), start=draw(st.booleans()))


def build_world(d):
    """records (sorted by time), core hits (for find_peaks), hitlets (integration regions, for sum_waveform),
    truth[(ch, sample index)] = value in ADC counts (bit shift and fractional baseline applied)."""
    dt = d["dt"]
    cursor = {}
    start = d["t0"]
    recs, cores, hitlets = [], [], []
    truth = {}
    for pu in d["pulses"]:
        start = start + pu["gap"]
        s0 = max(start, cursor.get(pu["ch"], 0))  # pulses of one channel never overlap
        data = [SAMPLES[i] for i in pu["data"]]
        n = len(data)
        cursor[pu["ch"]] = s0 + n
        fp = FPART[pu["fp"]]
        mult = 2 ** pu["shift"]
        for k, v in enumerate(data):
            truth[(pu["ch"], s0 + k)] = mult * v + fp
        # hits: maximal runs >= thr inside one record
        runs = []
        for r0 in range(0, n, SPR):
            k = r0
            r1 = min(r0 + SPR, n)
            while k < r1:
                if data[k] >= d["thr"]:
                    j = k
                    while j < r1 and data[j] >= d["thr"]:
                        j += 1
                    runs.append((k, j, r0 // SPR))
                    k = j
                else:
                    k += 1
        # integration bounds: extend by xl / xr samples inside the pulse, never into a neighbouring hit
        bounds = []
        for a, b, _ in runs:
            bounds.append([max(a - d["xl"], 0), min(b + d["xr"], n)])
        for i in range(1, len(bounds)):
            bounds[i - 1][1] = min(bounds[i - 1][1], runs[i][0])
            bounds[i][0] = max(bounds[i][0], bounds[i - 1][1])
        nrec = -(-n // SPR)
        for ri in range(nrec):
            seg = data[ri * SPR: (ri + 1) * SPR]
            recs.append(dict(time=(s0 + ri * SPR) * dt, length=len(seg), ch=pu["ch"], record_i=ri, pulse_length=n,
                             data=seg, baseline=100 + fp, shift=pu["shift"], key=(len(recs))))
        base = len(recs) - nrec
        for (a, b, ri), (la, lb) in zip(runs, bounds):
            area = sum(data[a:b]) + fp * (b - a)
            cores.append(dict(time=(s0 + a) * dt, length=b - a, ch=pu["ch"], area=area, rec=base + ri,
                              left=a - ri * SPR, right=b - ri * SPR, li=la - ri * SPR, ri=lb - ri * SPR,
                              itime=(s0 + la) * dt, ilength=lb - la))
    # records sorted by time (stable), hits refer to the sorted index
    order = sorted(range(len(recs)), key=lambda i: recs[i]["time"])
    pos = {old: new for new, old in enumerate(order)}
    R = np.zeros(len(recs), dtype=REC_DTYPE)
    for new, old in enumerate(order):
        r = recs[old]
        R[new]["time"], R[new]["length"], R[new]["dt"], R[new]["channel"] = r["time"], r["length"], dt, r["ch"]
        R[new]["record_i"], R[new]["pulse_length"], R[new]["baseline"] = r["record_i"], r["pulse_length"], r["baseline"]
        R[new]["amplitude_bit_shift"] = r["shift"]
        R[new]["data"][: r["length"]] = r["data"]
    C = np.zeros(len(cores), dtype=strax.hit_dtype)
    for i, c in enumerate(cores):
        C[i]["time"], C[i]["length"], C[i]["dt"], C[i]["channel"], C[i]["area"] = c["time"], c["length"], dt, c["ch"], c["area"]
        C[i]["left"], C[i]["right"], C[i]["left_integration"], C[i]["right_integration"] = c["left"], c["right"], c["li"], c["ri"]
        C[i]["record_i"] = pos[c["rec"]]
    o = np.argsort(C["time"], kind="stable")
    C = C[o]
    H = C.copy()
    it = np.array([cores[i]["itime"] for i in o], dtype=np.int64)
    il = np.array([cores[i]["ilength"] for i in o], dtype=np.int64)
    H["time"], H["length"] = it, il
    o2 = np.argsort(H["time"], kind="stable")
    return R, C, H[o2], o2, truth


def expected_waveform(p_time, p_len, dt, H, truth, to_pe, channels=None):
    """Dense sum waveform of a peak [p_time, p_time + p_len*dt) from the hitlets' integration regions."""
    wave = np.zeros(p_len, dtype=np.float64)
    apc = np.zeros(N_CH, dtype=np.float64)
    s0 = p_time // dt
    nterms = 0
    for h in H:
        a = int(h["time"]) // dt
        ch = int(h["channel"])
        for s in range(a, a + int(h["length"])):
            if s0 <= s < s0 + p_len:
                v = truth[(ch, s)] * float(to_pe[ch])
                apc[ch] += v
                nterms += 1
                if channels is None or ch < channels:
                    wave[s - s0] += v
    return wave, apc, nterms


def world_peaks(d, R, C, H, o2):
    """Peaks of the world through strax.find_peaks on the hit cores; hitlets restricted to hits inside a peak."""
    dt = d["dt"]
    le, re = d["le"] * dt, d["re"] * dt
    gap = le + re + d["gap_k"] * dt
    longest = int(C["length"].max()) * dt
    maxdur = 10_000_000 if d["maxdur"] is None else longest + 2 * le + re + d["maxdur"] * dt
    to_pe = TO_PE[d["to_pe"]]
    peaks = strax.find_peaks(C, to_pe, gap_threshold=gap, left_extension=le, right_extension=re, min_area=0,
                             min_channels=d["min_ch"], max_duration=maxdur, result_dtype=PEAK_DTYPE)
    if len(peaks) >= 2 and np.any(peaks["time"][1:] < endtime(peaks)[:-1]):
        raise Excluded("F17")
    # a hit belongs to a peak when its core lies inside it
    e = endtime(peaks)
    inside = np.array([bool(np.any((peaks["time"] <= c["time"]) & (c["time"] + c["length"] * dt <= e))) for c in C],
                      dtype=bool)
    keep = inside[o2]
    return peaks, H[keep], to_pe, maxdur


def run_sum_waveform(d):
    R, C, H, o2, truth = build_world(d)
    if not len(C):
        return dict(nt=False, classes=["no_hits"])
    dt = d["dt"]
    peaks, H, to_pe, maxdur = world_peaks(d, R, C, H, o2)
    if not len(peaks) or not len(H):
        return dict(nt=False, classes=["no_peaks"])
    before = peaks.copy()
    rl = strax.record_links(R)
    strax.sum_waveform(peaks, H, R, rl, to_pe, n_top_channels=d["n_top"], store_data_top=d["top"],
                       store_data_start=d["start"])
    classes = set()
    for q, b in zip(peaks, before):
        L = int(b["length"])
        wave, apc, nterms = expected_waveform(int(b["time"]), L, dt, H, truth, to_pe)
        scale = float(np.abs(wave).sum())
        check(close(q["area_per_channel"], apc, nterms, scale), "sum_waveform.area_per_channel",
              (d, q["area_per_channel"].tolist(), apc.tolist()))
        check(close(q["area"], apc.sum(), nterms, scale), "sum_waveform.area", (d, float(q["area"]), float(apc.sum())))
        check(close(q["area"], float(np.sum(q["area_per_channel"], dtype=np.float64)), nterms, scale),
              "sum_waveform.area_vs_per_channel", (d, float(q["area"]), q["area_per_channel"].tolist()))
        data, nl, f = ref.downsample(wave, N_BUF)
        check(int(q["length"]) == nl and int(q["dt"]) == dt * f and q["time"] == b["time"],
              "sum_waveform.downsampled_geometry", (d, int(q["length"]), int(q["dt"]), nl, dt * f))
        check(close(q["data"][:nl], data, nterms, scale) and not np.any(q["data"][nl:]), "sum_waveform.data",
              (d, q["data"].tolist(), data.tolist()))
        lost = float(wave[nl * f:].sum())
        check(close(float(np.sum(q["data"], dtype=np.float64)) + lost, q["area"], nterms, scale),
              "sum_waveform.data_integral_vs_area", (d, q["data"].tolist(), float(q["area"]), lost))
        if f > 1:
            classes.add("downsampled")
            if L % f:
                classes.add("downsample_tail_dropped")
            if lost:
                classes.add("downsample_area_lost_in_tail")
        if d["top"]:
            wt, _, _ = expected_waveform(int(b["time"]), L, dt, H, truth, to_pe, channels=d["n_top"])
            dtop, _, _ = ref.downsample(wt, N_BUF)
            check(close(q["data_top"][:nl], dtop, nterms, scale) and not np.any(q["data_top"][nl:]),
                  "sum_waveform.data_top", (d, q["data_top"].tolist(), dtop.tolist()))
        else:
            check(not np.any(q["data_top"]), "sum_waveform.data_top_written", d)
        if d["start"]:
            k = min(L, N_BUF)
            check(close(q["data_start"][:k], wave[:k], nterms, scale) and not np.any(q["data_start"][k:]),
                  "sum_waveform.data_start", (d, q["data_start"].tolist(), wave[:N_BUF].tolist()))
        check(q["n_hits"] == b["n_hits"], "sum_waveform.n_hits_changed", d)
    if np.any(H["left_integration"] < 0) or np.any(H["right_integration"] > SPR):
        classes.add("integration_crosses_record")
    if np.any((H["time"][:, None] < peaks["time"][None, :]) & (H["time"][:, None] + H["length"][:, None] * dt > peaks["time"][None, :])) \
            or np.any((H["time"][:, None] < endtime(before)[None, :]) & (H["time"][:, None] + H["length"][:, None] * dt > endtime(before)[None, :])):
        classes.add("hit_chopped_at_peak_edge")
    if len(peaks) >= 2:
        classes.add("ge2_peaks")
    if len(R) > len(d["pulses"]):
        classes.add("multi_record_pulse")
    if np.any(R["amplitude_bit_shift"] > 0):
        classes.add("bit_shift")
    if len(H) < len(C):
        classes.add("hits_outside_peaks_removed")
    return dict(nt=len(peaks) >= 2 or "downsampled" in classes, classes=sorted(classes))


# ------------------------------------------------------------------------------------------------
# sum_waveform over peaks that do not come from find_peaks: arbitrary disjoint windows which may begin or end in the
# middle of a hit cluster (what split_peaks hands to sum_waveform for the fragments, and the second peak after a
# max_duration cut).  sum_waveform documents that hits / integration bounds outside the peak are chopped.
# ------------------------------------------------------------------------------------------------
@st.composite
def st_windows(draw):
    w = draw(st_world(max_pulses=6))
    w["wins"] = [[draw(st.integers(0, 6)), draw(st.integers(1, 20))] for _ in range(draw(st.integers(1, 4)))]
    w["win0"] = draw(st.integers(-3, 6))
    return w


def run_sum_windows(d):
    R, C, H, o2, truth = build_world(d)
    if not len(H):
        return dict(nt=False, classes=["no_hits"])
    dt = d["dt"]
    to_pe = TO_PE[d["to_pe"]]
    cur = int(H["time"].min()) // dt + d["win0"]
    wins = []
    for gap, ln in d["wins"]:
        cur += gap
        wins.append((cur, ln))
        cur += ln
    # every peak contains hits (as peaks of find_peaks / fragments of split_peaks do): windows without a hit are dropped
    hh0, hh1 = H["time"] // dt, H["time"] // dt + H["length"]
    wins = [(a, ln) for a, ln in wins if any(a < y and x < a + ln for x, y in zip(hh0, hh1))]
    if not wins:
        return dict(nt=False, classes=["no_hit_in_any_window"])
    peaks = np.zeros(len(wins), dtype=PEAK_DTYPE)
    peaks["time"] = [a * dt for a, _ in wins]
    peaks["length"] = [ln for _, ln in wins]
    peaks["dt"] = dt
    peaks["channel"] = -1
    h0, h1 = H["time"] // dt, H["time"] // dt + H["length"]
    touching = np.array([any(a < h1[i] and h0[i] < a + ln for a, ln in wins) for i in range(len(H))], dtype=bool)
    H = H[touching]  # "hits which are inside peaks"
    if not len(H):
        return dict(nt=False, classes=["no_hit_in_any_window"])
    before = peaks.copy()
    rl = strax.record_links(R)
    strax.sum_waveform(peaks, H, R, rl, to_pe, n_top_channels=d["n_top"], store_data_top=d["top"],
                       store_data_start=d["start"])
    classes = set()
    for q, b in zip(peaks, before):
        L = int(b["length"])
        wave, apc, nterms = expected_waveform(int(b["time"]), L, dt, H, truth, to_pe)
        scale = float(np.abs(wave).sum())
        check(close(q["area_per_channel"], apc, nterms, scale), "sum_windows.area_per_channel",
              (d, q["area_per_channel"].tolist(), apc.tolist()))
        check(close(q["area"], apc.sum(), nterms, scale), "sum_windows.area", (d, float(q["area"]), float(apc.sum())))
        data, nl, f = ref.downsample(wave, N_BUF)
        check(int(q["length"]) == nl and int(q["dt"]) == dt * f and q["time"] == b["time"],
              "sum_windows.downsampled_geometry", (d, int(q["length"]), int(q["dt"]), nl, dt * f))
        check(close(q["data"][:nl], data, nterms, scale) and not np.any(q["data"][nl:]), "sum_windows.data",
              (d, q["data"].tolist(), data.tolist()))
        if f > 1:
            classes.add("downsampled")
        a = int(b["time"]) // dt
        inside = [(int(h0_), int(h1_)) for h0_, h1_ in zip(H["time"] // dt, H["time"] // dt + H["length"])]
        if any(x < a < y for x, y in inside):
            classes.add("window_starts_inside_a_hit")
        # the shape behind the loop's `continue`: a long hit reaching into the window, then a hit that starts later
        # but ends before the window starts, then a hit inside the window
        for i, (x, y) in enumerate(inside):
            if x < a < y:
                for j in range(i + 1, len(inside)):
                    if inside[j][1] <= a and any(inside[k][1] > a and inside[k][0] < a + L for k in range(j + 1, len(inside))):
                        classes.add("earlier_ending_hit_between_overlapping_hits")
    if len(peaks) >= 2:
        classes.add("ge2_windows")
    return dict(nt="window_starts_inside_a_hit" in classes or len(peaks) >= 2, classes=sorted(classes))


# ------------------------------------------------------------------------------------------------
# split_peaks: children tile the parent
# ------------------------------------------------------------------------------------------------
@st.composite
def st_split(draw):
    w = draw(st_world(max_pulses=5))
    algo = draw(st.sampled_from(["local_minimum", "natural_breaks"]))
    if algo == "local_minimum":
        kw = dict(min_height=draw(st.sampled_from([0.0, 0.5, 1.0, 3.0])), min_ratio=draw(st.sampled_from([0.0, 1.0, 2.0])))
    else:
        kw = dict(threshold=draw(st.sampled_from([0.05, 0.2, 0.4, 0.7])), normalize=draw(st.booleans()),
                  split_low=draw(st.booleans()), filter_wing_width=draw(st.integers(0, 4)))
    return dict(world=w, algo=algo, kw=kw, iters=draw(st.integers(1, 3)), min_area=draw(st.sampled_from([0, 0, 5])))


def run_split(d):
    w = d["world"]
    R, C, H, o2, truth = build_world(w)
    if not len(C):
        return dict(nt=False, classes=["no_hits"])
    dt = w["dt"]
    peaks, H, to_pe, maxdur = world_peaks(w, R, C, H, o2)
    if not len(peaks) or not len(H):
        return dict(nt=False, classes=["no_peaks"])
    rl = strax.record_links(R)
    strax.sum_waveform(peaks, H, R, rl, to_pe, n_top_channels=w["n_top"], store_data_top=w["top"])
    strax.compute_properties(peaks, n_top_channels=w["n_top"])
    parents = peaks.copy()
    kw = {k: (float(v) if k in ("min_height", "min_ratio") else v) for k, v in d["kw"].items()}  # one numba signature
    if d["algo"] == "natural_breaks":
        thr = kw["threshold"]
        kw["threshold"] = lambda p, _t=thr: np.full(len(p), _t, dtype=np.float64)
        kw["filter_wing_width"] = kw["filter_wing_width"] * dt
    out = strax.split_peaks(peaks, H, R, rl, to_pe, algorithm=d["algo"], data_type="peaks", n_top_channels=w["n_top"],
                            store_data_top=w["top"], do_iterations=d["iters"], min_area=d["min_area"], **kw)
    classes = set()
    tags = [d["algo"]]
    t, e = out["time"].astype(np.int64), endtime(out)
    check(np.all(t[1:] >= t[:-1]), "split.not_time_ordered", (d, t.tolist()), tags)
    pt, pe = parents["time"].astype(np.int64), endtime(parents)
    used = np.zeros(len(out), dtype=bool)
    n_split = 0
    for pi in range(len(parents)):
        idx = [k for k in range(len(out)) if pt[pi] <= t[k] and e[k] <= pe[pi]]
        used[idx] = True
        check(len(idx) >= 1, "split.parent_lost", (d, pi, (int(pt[pi]), int(pe[pi])), list(zip(t.tolist(), e.tolist()))), tags)
        if len(idx) == 1 and t[idx[0]] == pt[pi] and e[idx[0]] == pe[pi] and out[idx[0]]["dt"] == parents[pi]["dt"]:
            # not split: the row is the parent itself (max_goodness_of_split may have been filled in)
            a, b = out[idx[0]].copy(), parents[pi].copy()
            a["max_goodness_of_split"] = b["max_goodness_of_split"] = 0
            check(a.tobytes() == b.tobytes(), "split.unsplit_peak_changed", (d, pi), tags)
            continue
        n_split += 1
        spans = [(int(t[k]), int(e[k]), int(out[k]["dt"])) for k in idx]
        # children tile [parent.time, parent.endtime): no overlap, no gap.  A child that had to be down-sampled
        # to fit the buffer may end up to one of its (new) samples early - documented data loss of
        # store_downsampled_waveform - which is the only slack granted.
        # ... A child of an earlier iteration that was itself down-sampled (factor <= F) and then split again has
        # lost < F of the original samples at its end without this being visible in the final children.
        F = -(-((int(pe[pi]) - int(pt[pi])) // dt) // N_BUF)
        inter = (d["iters"] - 1) * (F - 1) * dt
        slack = [(c[2] - dt if c[2] > dt else 0) + inter for c in spans]
        ds = any(c[2] > dt for c in spans)
        if ds:
            classes.add("child_downsampled")
        detail = (d, "parent", (int(pt[pi]), int(pe[pi]), int(parents[pi]["dt"])), "children (time, endtime, dt)", spans)

        def hole(missing, sl, clause):
            """A hole of `missing` ns between / after the children, of which only `sl` is excused."""
            check(missing <= sl, clause, detail, tags)

        check(spans[0][0] == pt[pi], "split.children_start_after_parent", detail, tags)
        for (a0, a1, _), (b0, b1, _), sl in zip(spans[:-1], spans[1:], slack[:-1]):
            check(b0 >= a1, "split.children_overlap", detail, tags)
            hole(b0 - a1, sl, "split.gap_between_children")
        check(spans[-1][1] <= pe[pi], "split.children_beyond_parent", detail, tags)
        hole(pe[pi] - spans[-1][1], slack[-1], "split.children_end_before_parent")
        if len(idx) >= 3:
            classes.add("ge3_children")
    check(bool(np.all(used)), "split.peak_outside_any_parent", (d, list(zip(t.tolist(), e.tolist()))), tags)
    classes.add(d["algo"])
    if n_split:
        classes.add("split_happened")
        classes.add("split_" + d["algo"])
    if np.any(parents["dt"] > dt):
        classes.add("parent_downsampled")
    if n_split and np.any(parents["dt"] > dt):
        classes.add("split_of_downsampled_parent")
    return dict(nt=n_split > 0, classes=sorted(classes))


# ------------------------------------------------------------------------------------------------
# merge_peaks / replace_merged
# ------------------------------------------------------------------------------------------------
WAVE = [0.0, 0.0, 1.0, 2.0, 5.0, 0.5]
PEAK_DTYPE_ET = np.dtype(strax.peak_dtype(n_channels=N_CH, n_sum_wv_samples=N_BUF, n_widths=11)
                         + [(("Exclusive end time", "endtime"), np.int64)])


@st.composite
def st_peaklist(draw, min_n=2, max_n=6):
    n = draw(st.integers(min_n, max_n))
    peaks = []
    for _ in range(n):
        ln = draw(st.integers(1, N_BUF))
        peaks.append(dict(gap=draw(st.integers(0, 6)), f=draw(st.sampled_from([1, 1, 2, 4])),
                          data=[draw(st.integers(0, len(WAVE) - 1)) for _ in range(ln)],
                          ch=[draw(st.integers(0, N_CH - 1)) for _ in range(ln)], n_hits=draw(st.integers(1, 5))))
    return dict(b=draw(st.sampled_from([1, 2, 10])), t0=draw(st.integers(0, 4)), aligned=draw(st.booleans()), peaks=peaks)


@st.composite
def st_merge(draw):
    pl = draw(st_peaklist())
    n = len(pl["peaks"])
    iv = []
    i = 0
    while i < n:
        if draw(st.booleans()):
            ln = draw(st.integers(1, n - i))
            iv.append([i, i + ln])
            i += ln
        else:
            i += 1
    mask = None
    if draw(st.sampled_from([False, False, True])):
        mask = [draw(st.booleans()) for _ in range(n)]
        for a, b in iv:  # at least one selected peak per merge (strax raises otherwise)
            if not any(mask[a:b]):
                mask[a + draw(st.integers(0, b - a - 1))] = True
    return dict(pl=pl, iv=iv, mask=mask, et=False, buf=draw(st.sampled_from([None, 4096])))


def build_peaks(pl, dtype=PEAK_DTYPE):
    b = pl["b"]
    unit = b * 4 if pl["aligned"] else b
    P = np.zeros(len(pl["peaks"]), dtype=dtype)
    t = pl["t0"] * unit
    for i, sp in enumerate(pl["peaks"]):
        t = -(-t // unit) * unit + sp["gap"] * unit
        q = P[i]
        ln = len(sp["data"])
        q["time"], q["dt"], q["length"], q["channel"], q["n_hits"] = t, b * sp["f"], ln, -1, sp["n_hits"]
        vals = np.array([WAVE[k] for k in sp["data"]], dtype=np.float32)
        q["data"][:ln] = vals
        q["data_top"][:ln] = np.where(np.array(sp["ch"]) < 2, vals, 0)
        for v, c in zip(vals, sp["ch"]):
            q["area_per_channel"][c] += v
        q["area"] = vals.sum()
        q["max_diff"], q["min_diff"] = 3 + i, 1 + i
        t += ln * b * sp["f"]
        if "endtime" in P.dtype.names:
            q["endtime"] = t
    return P


def _plist(P):
    return [dict(time=int(q["time"]), dt=int(q["dt"]), length=int(q["length"]), data=q["data"].astype(np.float64),
                 end=int(q["time"]) + int(q["length"]) * int(q["dt"])) for q in P]


def run_merge(d):
    P = build_peaks(d["pl"], PEAK_DTYPE_ET if d["et"] else PEAK_DTYPE)
    n = len(P)
    iv = d["iv"]
    sa = np.array([a for a, _ in iv], dtype=np.int64)
    ea = np.array([b for _, b in iv], dtype=np.int64)
    mask = None if d["mask"] is None else np.array(d["mask"], dtype=bool)
    kw = {} if d["buf"] is None else dict(max_buffer=d["buf"])
    M = strax.merge_peaks(P, sa, ea, merged=mask, **kw)
    check(len(M) == len(iv) and M.dtype == P.dtype, "merge.count", (d, len(M)))
    classes = set()
    aligned = d["pl"]["aligned"]
    for (a, b), m in zip(iv, M):
        sel = [k for k in range(a, b) if mask is None or mask[k]]
        cons = P[sel]
        pl = _plist(cons)
        nterm = int(cons["length"].sum()) + 1
        last_end = pl[-1]["end"]
        check(int(m["time"]) == pl[0]["time"], "merge.time_not_first_start", (d, (a, b), int(m["time"])))
        mend = int(m["time"]) + int(m["length"]) * int(m["dt"])
        c = ref.gcd_list([q["dt"] for q in pl])
        edata, el, edt = ref.merged_wave(pl, N_BUF)
        if d["et"]:
            check(int(m["endtime"]) == last_end, "merge.endtime_field_not_last_end", (d, (a, b), int(m["endtime"]), last_end))
        check(mend <= last_end, "merge.ends_after_last_end", (d, (a, b), mend, last_end))
        if aligned:
            check(int(m["dt"]) == edt and int(m["length"]) == el, "merge.geometry", (d, (a, b), int(m["dt"]), int(m["length"]), edt, el))
            if edt == c:
                check(mend == last_end, "merge.end_not_last_end", (d, (a, b), mend, last_end))
            scale = float(np.abs(edata).sum()) + 1e-30
            check(close(m["data"][:el], edata, nterm, scale) and not np.any(m["data"][el:]), "merge.data",
                  (d, (a, b), m["data"].tolist(), edata.tolist()))
            etop, _, _ = ref.merged_wave([dict(q, data=t) for q, t in zip(pl, cons["data_top"].astype(np.float64))], N_BUF)
            check(close(m["data_top"][:el], etop, nterm, scale), "merge.data_top", (d, (a, b), m["data_top"].tolist(), etop.tolist()))
        else:
            check(int(m["dt"]) % c == 0 and last_end - mend < int(m["dt"]) + c, "merge.end_too_early",
                  (d, (a, b), mend, last_end, int(m["dt"]), c))
        tot = float(cons["area"].astype(np.float64).sum())
        sc = float(np.abs(cons["area"]).sum())
        check(close(m["area"], tot, len(sel), sc), "merge.area_not_sum", (d, (a, b), float(m["area"]), tot))
        check(close(m["area_per_channel"], cons["area_per_channel"].astype(np.float64).sum(axis=0), len(sel), sc),
              "merge.area_per_channel_not_sum", (d, (a, b), m["area_per_channel"].tolist()))
        check(int(m["n_hits"]) == int(cons["n_hits"].sum()), "merge.n_hits_not_sum", (d, (a, b), int(m["n_hits"])))
        if len(sel) >= 2:
            classes.add("merged_ge2")
        if len(set(cons["dt"].tolist())) > 1:
            classes.add("mixed_dt")
        if int(m["dt"]) > c:
            classes.add("merged_downsampled")
        if len(sel) < b - a:
            classes.add("masked_out_inside")
    # ---- replace_merged(orig, merged): merged + originals that touch no merged peak, sorted by time
    out = strax.replace_merged(P, M)
    ms = [(int(m["time"]), (int(m["endtime"]) if d["et"] else int(m["time"]) + int(m["length"]) * int(m["dt"]))) for m in M]
    pe = [q["end"] for q in _plist(P)]
    rows = [(int(m["time"]), 1, m.tobytes()) for m in M]
    kept = 0
    for k in range(n):
        s0, e0 = int(P[k]["time"]), (int(P[k]["endtime"]) if d["et"] else pe[k])
        if not any(s0 < me and ms_ < e0 for ms_, me in ms):
            rows.append((s0, 0, P[k].tobytes()))
            kept += 1
    rows.sort(key=lambda r: (r[0], r[1]))
    if not len(iv):
        check(out is P or (len(out) == n and out.tobytes() == P.tobytes()), "replace.no_merge_not_identity", d)
        classes.add("nothing_to_merge")
    else:
        check(len(out) == len(rows), "replace.count", (d, len(out), len(rows)))
        check(bool(np.all(np.diff(out["time"]) >= 0)), "replace.not_sorted", (d, out["time"].tolist()))
        check([o.tobytes() for o in out] == [r[2] for r in rows], "replace.rows",
              (d, out["time"].tolist(), [r[0] for r in rows]))
    if kept and len(iv):
        classes.add("untouched_kept")
    if kept < n - sum(b - a for a, b in iv):
        classes.add("unmerged_peak_dropped_as_touching")
    if kept > n - sum(b - a for a, b in iv):
        classes.add("constituent_kept_not_touching")
    classes.add("aligned" if aligned else "unaligned")
    if d["et"]:
        classes.add("endtime_field")
    return dict(nt="merged_ge2" in classes, classes=sorted(classes))


def _interval_sets(n):
    """All sets of disjoint, sorted, non-empty index intervals [a, b) within 0..n (including the empty set)."""
    def rec(i):
        if i >= n:
            yield []
            return
        for rest in rec(i + 1):
            yield rest
        for b in range(i + 1, n + 1):
            for rest in rec(b):
                yield [[i, b]] + rest
    return list(rec(0))


def enum_merge(tier, seed):
    """merge index sets exhaustively for 2..5 peaks (thorough: also every admissible `merged` mask)."""
    for n in range(2, 6):
        for k in range(2 if tier == "quick" else 4):
            rng = np.random.RandomState(1000 * seed + 10 * n + k)
            peaks = [dict(gap=int(rng.randint(0, 4)), f=int(rng.choice([1, 1, 2, 4])),
                          data=[int(x) for x in rng.randint(0, len(WAVE), size=rng.randint(1, N_BUF + 1))],
                          n_hits=int(rng.randint(1, 5))) for _ in range(n)]
            for sp in peaks:
                sp["ch"] = [int(x) for x in rng.randint(0, N_CH, size=len(sp["data"]))]
            pl = dict(b=int(rng.choice([1, 2, 10])), t0=int(rng.randint(0, 3)), aligned=bool(k % 2 == 0), peaks=peaks)
            for iv in _interval_sets(n):
                yield dict(pl=pl, iv=iv, mask=None, et=False, buf=4096)
                if tier == "thorough":
                    # dtype with an `endtime` field (a second set of numba specialisations: thorough tier only)
                    yield dict(pl=pl, iv=iv, mask=None, et=True, buf=4096)
                if tier == "thorough" and iv:
                    inside = [j for a, b in iv for j in range(a, b)]
                    for bits in itertools.product([False, True], repeat=len(inside)):
                        m = [False] * n
                        for j, v in zip(inside, bits):
                            m[j] = v
                        if all(any(m[a:b]) for a, b in iv) and not all(bits):
                            yield dict(pl=pl, iv=iv, mask=m, et=False, buf=4096)


# replace_merged with free-form merged intervals (rows of the peak dtype, `n_hits` serves as row id)


@st.composite
def st_replace(draw):
    from vf import gen
    orig = draw(gen.st_rows(max_n=8, mode="disjoint", max_len=4, max_gap=3))
    hi = max([b for _, b in orig] + [4]) + 3
    # merged intervals: either spans of consecutive originals, or free intervals
    mode = draw(st.sampled_from(["runs", "runs", "free"]))
    merge = []
    if mode == "runs" and orig:
        i = 0
        while i < len(orig):
            if draw(st.booleans()):
                ln = draw(st.integers(1, len(orig) - i))
                merge.append([orig[i][0], orig[i + ln - 1][1]])
                i += ln
            else:
                i += 1
    else:
        t = draw(st.integers(0, 2))
        while t < hi and len(merge) < 4:
            a = t + draw(st.integers(0, 4))
            b = a + draw(st.integers(1, 5))
            merge.append([a, b])
            t = b
    return dict(orig=orig, merge=merge, unit=draw(st.sampled_from([1, 1, 10])))


def run_replace(d):
    u = d["unit"]

    def arr(rows, off):
        x = np.zeros(len(rows), dtype=PEAK_DTYPE)
        for i, (a, b) in enumerate(rows):
            x[i]["time"], x[i]["length"], x[i]["dt"], x[i]["channel"], x[i]["n_hits"] = a * u, b - a, u, i % 3, off + i
            x[i]["area"] = 1.5 * (off + i)
        return x

    O, M = arr(d["orig"], 0), arr(d["merge"], 1000)
    # the callers' domain: every merged interval covers at least one original, no original is touched by two
    # merged intervals (merged peaks are disjoint unions of originals) - steer there by dropping merged intervals
    mlist, keep, taken = [], [], set()
    for j, (c, e) in enumerate(d["merge"]):
        tj = {i for i, (a, b) in enumerate(d["orig"]) if a < e and c < b}
        if tj and not (tj & taken):
            mlist.append([c, e])
            keep.append(j)
            taken |= tj
    dropped = len(keep) < len(d["merge"])
    M = M[keep]
    touched = [[j for j, (c, e) in enumerate(mlist) if a < e and c < b] for a, b in d["orig"]]
    out = strax.replace_merged(O, M)
    rows = [(int(m["time"]), 1, int(m["n_hits"])) for m in M] + [(int(o["time"]), 0, int(o["n_hits"])) for o, t in zip(O, touched) if not t]
    rows.sort()
    classes = set()
    if not len(M):
        check(len(out) == len(O) and out.tobytes() == O.tobytes(), "replace.no_merge_not_identity", d)
        return dict(nt=False, classes=["nothing_to_merge"])
    check(len(out) == len(rows), "replace.count", (d, out["n_hits"].tolist(), [r[2] for r in rows]))
    check(out["n_hits"].tolist() == [r[2] for r in rows], "replace.rows_or_order", (d, out["n_hits"].tolist(), [r[2] for r in rows]))
    byid = {int(x["n_hits"]): x.tobytes() for x in np.concatenate([O, M])}
    check(all(o.tobytes() == byid[int(o["n_hits"])] for o in out), "replace.row_changed", d)
    check(bool(np.all(np.diff(out["time"]) >= 0)), "replace.not_sorted", (d, out["time"].tolist()))
    if any(not t for t in touched):
        classes.add("untouched_kept")
    if dropped:
        classes.add("free_merge_interval_dropped")
    if any(a < c < b or a < e < b for a, b in d["orig"] for c, e in mlist):
        classes.add("merge_partially_covers_orig")
    if len(M) >= 2:
        classes.add("ge2_merged")
    if touched and touched[-1]:
        classes.add("last_orig_merged")
    if touched and touched[0]:
        classes.add("first_orig_merged")
    return dict(nt=len(M) >= 1 and len(O) >= 2, classes=sorted(classes))


# ------------------------------------------------------------------------------------------------
# waveform helpers
# ------------------------------------------------------------------------------------------------
ALPHA = [0.0, 1.0, 2.0, 5.0, 0.5]
ALPHA_EXH = [0.0, 1.0, 3.0]


def waves_exh(tier, min_len=1):
    top = 6 if tier == "quick" else 8
    for n in range(min_len, top + 1):
        for w in itertools.product(range(len(ALPHA_EXH)), repeat=n):
            yield [ALPHA_EXH[k] for k in w]


st_wave = st.lists(st.sampled_from(ALPHA), min_size=1, max_size=9)


@st.composite
def st_sma(draw):
    return dict(a=draw(st_wave), w=draw(st.integers(0, 4)))


def enum_sma(tier, seed):
    for a in waves_exh(tier):
        for w in range(0, 5):
            yield dict(a=a, w=w)


def run_sma(d):
    a = np.array(d["a"], dtype=np.float64)
    w = d["w"]
    got = ps.symmetric_moving_average(a.copy(), w)
    want = ref.sma(a, w)
    n = len(a)
    ok = got.shape == want.shape and np.allclose(got, want, rtol=1e-9, atol=1e-12)
    check(ok, "sma.value", (d, "got", np.asarray(got).tolist(), "want", want.tolist()))
    classes = ["wing%d" % w]
    if w >= 1 and n > 2 * w + 1:
        classes.append("full_window_inside")
    if w >= 1 and n > w + 1:
        classes.append("sample0_must_leave")
    if w >= 1 and n < w:
        classes.append("shorter_than_wing")
    return dict(nt=w >= 1 and n > 2 * w + 1, classes=classes)


@st.composite
def st_gof(draw):
    return dict(w=draw(st.lists(st.sampled_from(ALPHA), min_size=2, max_size=9)), dt=draw(st.sampled_from([1, 2, 10])),
                normalize=draw(st.booleans()), split_low=draw(st.booleans()), fww=draw(st.integers(0, 5)),
                fodd=draw(st.booleans()))


def enum_gof(tier, seed):
    for w in waves_exh(tier, 2):
        for normalize, split_low, fww in ((False, False, 0), (True, False, 0), (False, True, 0), (False, True, 3)):
            yield dict(w=w, dt=1, normalize=normalize, split_low=split_low, fww=fww, fodd=False)


def run_gof(d):
    w = np.array(d["w"], dtype=np.float64)
    dt = d["dt"]
    fww = d["fww"] * dt + (dt // 2 if d["fodd"] else 0)
    # the filter wing in samples as natural_breaks_gof derives it from filter_wing_width
    filter_n = fww // dt - 1
    if ref.ssd(w) == 0:
        return dict(nt=False, classes=["degenerate_no_spread"])
    got = ps.natural_breaks_gof(w.copy(), dt, normalize=d["normalize"], split_low=d["split_low"], filter_wing_width=fww)
    want = ref.gof(w, d["normalize"], d["split_low"], filter_n)
    check(got.shape == want.shape and np.allclose(got, want, rtol=1e-9, atol=1e-9), "gof.value",
          (d, "got", got.tolist(), "want", want.tolist()))
    classes = []
    if d["normalize"]:
        classes.append("normalize")
    if d["split_low"]:
        classes.append("split_low")
        if filter_n > 0:
            classes.append("filtered")
    if np.any(want > 0.5):
        classes.append("two_humps")
    return dict(nt=len(w) >= 3 and np.count_nonzero(w) >= 2, classes=classes)


FRACS = [0.0, 0.1, 0.25, 0.5, 0.75, 0.9, 1.0]


@st.composite
def st_frac(draw):
    n = draw(st.integers(1, 3))
    peaks = [dict(data=draw(st.lists(st.sampled_from(ALPHA), min_size=1, max_size=N_BUF)), dt=draw(st.sampled_from([1, 2, 10, 7])),
                  time=draw(st.integers(0, 50))) for _ in range(n)]
    fr = sorted(draw(st.lists(st.sampled_from(FRACS), min_size=1, max_size=5, unique=True)))
    return dict(peaks=peaks, fr=fr)


def enum_frac(tier, seed):
    for w in waves_exh(tier):
        yield dict(peaks=[dict(data=w, dt=2, time=3)], fr=FRACS)


def run_frac(d):
    P = np.zeros(len(d["peaks"]), dtype=PEAK_DTYPE)
    for q, sp in zip(P, d["peaks"]):
        ln = len(sp["data"])
        q["time"], q["dt"], q["length"] = sp["time"], sp["dt"], ln
        q["data"][:ln] = sp["data"]
        q["area"] = q["data"].sum()
    fr = np.array(d["fr"], dtype=np.float64)
    EPS = 2e-6

    def band(data, f, dtq=1):
        lo, hi = ref.fraction_band(data, f, EPS)
        tol = 2e-5 * max(1.0, hi)
        return (lo - tol) * dtq, (hi + tol) * dtq

    classes = set()
    # ---- index_of_fraction
    got = strax.index_of_fraction(P, fr)
    check(got.shape == (len(P), len(fr)), "index_of_fraction.shape", (d, got.shape))
    for pi, sp in enumerate(d["peaks"]):
        data = sp["data"]
        if sum(data) == 0:
            check(not np.any(got[pi]), "index_of_fraction.zero_area_peak_not_zero", (d, got[pi].tolist()))
            classes.add("zero_area")
            continue
        for k, f in enumerate(d["fr"]):
            lo, hi = band(data, f)
            check(lo <= got[pi, k] <= hi, "index_of_fraction.value", (d, pi, f, float(got[pi, k]), (lo, hi)))
            if hi - lo > 0.5:
                classes.add("plateau_band")
    # ---- compute_widths
    med, width, decile = strax.compute_widths(P)
    nw = PEAK_DTYPE["width"].shape[0]
    for pi, sp in enumerate(d["peaks"]):
        data, dtq = sp["data"], sp["dt"]
        if sum(data) == 0:
            check(med[pi] == 0 and not np.any(width[pi]) and not np.any(decile[pi]), "compute_widths.zero_area_peak", d)
            continue
        mlo, mhi = band(data, 0.5, dtq)
        check(mlo <= med[pi] <= mhi, "compute_widths.median_time", (d, pi, float(med[pi]), (mlo, mhi)))
        check(width[pi, 0] == 0, "compute_widths.width0", (d, pi, float(width[pi, 0])))
        for k in range(1, nw):
            wk = k / (nw - 1)
            alo, ahi = band(data, 0.5 - wk / 2, dtq)
            blo, bhi = band(data, 0.5 + wk / 2, dtq)
            check(blo - ahi <= width[pi, k] <= bhi - alo, "compute_widths.width",
                  (d, pi, k, float(width[pi, k]), (blo - ahi, bhi - alo)))
        for k in range(nw):
            alo, ahi = band(data, k / (nw - 1), dtq)
            check(alo - mhi <= decile[pi, k] <= ahi - mlo, "compute_widths.area_decile_from_midpoint",
                  (d, pi, k, float(decile[pi, k]), (alo - mhi, ahi - mlo)))
    # ---- compute_center_time
    ct = strax.processing.peak_properties.compute_center_time(P)
    for pi, sp in enumerate(d["peaks"]):
        want, near = ref.center_time_exact(sp["time"], sp["dt"], sp["data"], len(sp["data"]))
        check(ct[pi] == want or (near and abs(int(ct[pi]) - want) <= 1), "compute_center_time.value",
              (d, pi, int(ct[pi]), want))
        if near:
            classes.add("center_time_floor_tie")
    if any(0.0 in sp["data"] for sp in d["peaks"]):
        classes.add("zero_samples")
    return dict(nt=any(len(sp["data"]) >= 3 and np.count_nonzero(sp["data"]) >= 2 for sp in d["peaks"]),
                classes=sorted(classes))


HDR_ALPHA = [0.0, 1.0, 2.0, 3.0, 4.0, 7.0]
HDR_FR = [0.1, 0.2, 0.25, 0.5, 0.7, 0.9, 1.0]


@st.composite
def st_hdr(draw):
    return dict(data=draw(st.lists(st.sampled_from(HDR_ALPHA), min_size=1, max_size=9)),
                fr=sorted(draw(st.lists(st.sampled_from(HDR_FR), min_size=1, max_size=4, unique=True))),
                upper=draw(st.sampled_from([True, True, True, False])), buf=draw(st.sampled_from([10, 10, 1, 2, 3])),
                f32=draw(st.booleans()))


def enum_hdr(tier, seed):
    for w in waves_exh(tier):
        for upper, buf in ((True, 10), (False, 10), (True, 2), (True, 1)):
            yield dict(data=w, fr=[0.2, 0.5, 0.9, 1.0], upper=upper, buf=buf, f32=True)


def run_hdr(d):
    data = np.array(d["data"], dtype=np.float32 if d["f32"] else np.float64)
    B = d["buf"]
    n = len(data)
    if data.sum() <= 0:
        try:
            strax.highest_density_region(data, np.array(d["fr"]), only_upper_part=d["upper"], _buffer_size=B)
        except ValueError:
            return dict(nt=False, classes=["zero_area_rejected"])
        raise Violation("hdr.zero_area_accepted", repr(d))
    fr = list(d["fr"])
    classes = set()
    exp = [ref.hdr(d["data"], f, True) for f in fr] if d["upper"] else None
    worst = 0
    if not d["upper"]:
        levels = sorted(set(d["data"]), reverse=True)
        worst = max(len(ref.intervals_of([x > L for x in d["data"]])) for L in levels[1:] + [-1.0])
    res, amp = strax.highest_density_region(data, np.array(fr, dtype=np.float64), only_upper_part=d["upper"], _buffer_size=B)
    check(res.shape == (len(fr), 2, B) and amp.shape == (len(fr),), "hdr.shape", (d, res.shape))
    for fi, f in enumerate(fr):
        got_l, got_r = res[fi, 0].tolist(), res[fi, 1].tolist()
        if d["upper"]:
            alts, want_amp = exp[fi]
            oks = []
            for a in alts:
                if len(a) > B:
                    oks.append(got_l == [-1] * B and got_r == [-1] * B)
                    if len(a) == B + 1:
                        classes.add("intervals_eq_buffer_plus_one")
                    classes.add("buffer_too_small")
                else:
                    oks.append(got_l == [x for x, _ in a] + [0] * (B - len(a)) and got_r == [y for _, y in a] + [0] * (B - len(a)))
            check(any(oks), "hdr.intervals", (d, "fraction", f, "got", [got_l, got_r], "acceptable", alts))
            check(abs(float(amp[fi]) - want_amp) <= 1e-5 * max(1.0, abs(want_amp)), "hdr.amplitude",
                  (d, "fraction", f, float(amp[fi]), want_amp))
            if len(alts) > 1:
                classes.add("level_tie")
            if len(alts[0]) >= 2:
                classes.add("ge2_intervals")
            if alts[0] == [(0, n)]:
                classes.add("whole_range")
        else:
            # validity: a top set holding >= f of the area whose lowest level is needed for that
            if got_l == [-1] * B:
                check(got_r == [-1] * B and worst > B, "hdr.flagged_although_region_fits", (d, f, [got_l, got_r], worst))
                classes.add("buffer_too_small")
                continue
            k = 0
            while k < B and got_r[k] > 0:
                k += 1
            ivs = list(zip(got_l[:k], got_r[:k]))
            check(len(ivs) <= B and all(0 <= a < b <= n for a, b in ivs) and all(b0 < a1 for (_, b0), (a1, _) in zip(ivs[:-1], ivs[1:]))
                  and not any(got_l[k:]) and not any(got_r[k:]), "hdr.intervals_malformed", (d, f, [got_l, got_r]))
            inside = np.zeros(n, dtype=bool)
            for a, b in ivs:
                inside[a:b] = True
            vals = np.array(d["data"])
            check(inside.any() and (inside.all() or vals[inside].min() >= vals[~inside].max()), "hdr.not_a_top_set",
                  (d, f, ivs))
            frac = vals[inside].sum() / vals.sum()
            check(frac >= f - 1e-6, "hdr.region_holds_less_than_fraction", (d, f, ivs, frac))
            low = vals[inside].min()
            rest = vals[inside & (vals > low)].sum() / vals.sum()
            check(rest < f + 1e-6 or (inside & (vals > low)).sum() == 0, "hdr.region_larger_than_needed", (d, f, ivs, rest))
            if len(ivs) >= 2:
                classes.add("ge2_intervals")
    classes.add("upper" if d["upper"] else "full_area")
    classes.add("buffer%d" % B)
    return dict(nt=n >= 3 and np.count_nonzero(data) >= 2, classes=sorted(classes))


# Every worker process compiles the numba functions it touches from scratch (private caches): ~3 CPU-minutes for
# all of C19.  Eight shards per sub-check keep the total compile bill down; the tiny enumerations ride along.
S = 8
SUBCHECKS = [
    SubCheck("find_peaks", run_find_peaks, strategy=st_hitset, quick=6000, thorough=320000, shards=S),
    SubCheck("peak_groups", run_find_peaks, enumerate=enum_groups, shards=S),
    SubCheck("sum_waveform", run_sum_waveform, strategy=st_world, quick=4000, thorough=200000, shards=S),
    SubCheck("sum_windows", run_sum_windows, strategy=st_windows, quick=4000, thorough=200000, shards=S,
             required_classes=("window_starts_inside_a_hit", "earlier_ending_hit_between_overlapping_hits")),
    SubCheck("split", run_split, strategy=st_split, quick=3000, thorough=120000, shards=S),
    SubCheck("merge", run_merge, strategy=st_merge, quick=3000, thorough=160000, shards=S),
    SubCheck("merge_exh", run_merge, enumerate=enum_merge, exhaustive_in=("quick", "thorough"), shards=S),
    SubCheck("replace", run_replace, strategy=st_replace, quick=3000, thorough=100000, shards=S),
    SubCheck("sma", run_sma, strategy=st_sma, quick=2000, thorough=60000, shards=S),
    SubCheck("sma_exh", run_sma, enumerate=enum_sma, exhaustive_in=("quick", "thorough"), shards=S),
    SubCheck("gof", run_gof, strategy=st_gof, quick=2000, thorough=80000, shards=S),
    SubCheck("gof_exh", run_gof, enumerate=enum_gof, exhaustive_in=("quick", "thorough"), shards=S),
    SubCheck("fractions", run_frac, strategy=st_frac, quick=2000, thorough=80000, shards=S),
    SubCheck("fractions_exh", run_frac, enumerate=enum_frac, exhaustive_in=("quick", "thorough"), shards=S),
    SubCheck("hdr", run_hdr, strategy=st_hdr, quick=2000, thorough=80000, shards=S),
    SubCheck("hdr_exh", run_hdr, enumerate=enum_hdr, exhaustive_in=("quick", "thorough"), shards=S),
]
