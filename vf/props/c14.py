"""C14 - a superrun is exactly the ordered concatenation of its subruns.

A case = a pool of 1-5 runs (own rows, own law-abiding chunking, a source plugin that looks its chunks up by run id;
increasing non-overlapping time spans with generated gaps: 0, < / > the rechunker's 1000 ns threshold, ms, s), run
documents with start/end, a superrun defined from a shuffled sub-list, a plugin chain of depth 1-3 whose first
`allow_superrun` level is at any depth (row-wise / filter / ExhaustPlugin / two-dependency merge levels),
`write_superruns` on/off, tiny chunk targets (rechunking across subrun borders), both processors, and a history
(get | make then get | combining=True;  re-read from a fresh context;  redefine with another sub-list, query again,
define back).

Oracles (all independent of strax): a pure list evaluator of the chain (levels below the first superrun level per
subrun, the others on the concatenation), the literal statement (== concatenation of the per-subrun get_array), and
an interval predicate for the `subruns` bookkeeping: span of subrun r in chunk c == [c.start, c.end] /\\ [S_r, E_r].
Sub-check `continuity` feeds hand-built concatenations of subrun chunk streams to strax.continuity_check (what
get_iter and the savers run on every stream): accepted unchanged whatever the time between two subruns, rejected for
a hole / overlap inside a subrun.

Recorded findings (known_findings.json, property C14): F16 (Chunk.split keeps `subruns` of a chunk that is not
aligned with its subrun spans), F15 (gap chunk labelled with the previous subrun), F1430 (sub_run_spec comes back in
run-name order), F1431 (zero-duration superrun chunk loses its subruns).
"""
import collections
import datetime
import itertools
import json
import os
import shutil

import numpy as np
import pytz
from bson import json_util
from hypothesis import strategies as st

import strax
from vf import gen
from vf.core import Excluded, SubCheck, Violation, exception_chain
from vf.findings import signature
from vf.props import c01
from vf.sched import policies
from vf.sched.scheduler import Scheduler

PROPERTY_ID = "C14"
LEVEL = "exploration"
ENV = {"NUMBA_DISABLE_JIT": "1"}
RULE = (
    "A case = pool of 1-5 runs on an integer grid scaled by unit in {1, 400, 2000} ns (rows sorted by time, may "
    "overlap; chunk cuts at admissible times incl. duplicates = zero-duration chunks; a run may span a millisecond "
    "border so that the next run can follow after 0-3 grid steps, else the next run starts in a later millisecond / "
    "second; run documents carry start/end at millisecond resolution, strictly increasing) x superrun = shuffled "
    "sub-list of 1-4 runs (run names are a permutation, so name order != time order) x chain of 1-3 plugin levels "
    "(rowwise / filter / exhaust / merge of two superrun levels) with the first allow_superrun level k anywhere, "
    "target level >= k x per-level rechunk_on_save / chunk_target_size_mb of 1-3 rows / rechunk_on_load / save_when x "
    "write_superruns x allow_rechunk x processor (threaded runs under the controlled scheduler) x history "
    "(get | make+get | combining; subruns queried before or after; re-read in a fresh context; redefinition with "
    "another sub-list; define back), all drawn from Hypothesis.  Non-trivial = >= 2 subruns and some subrun in >= 2 "
    "chunks and (a stored / yielded chunk spans a subrun border or the subruns' chunk layouts differ).  Sub-check "
    "continuity: the same pools turned into chunk streams (superrun chunks of 1-3 consecutive pieces, inter-run time "
    "absorbed or left as a hole; or the subruns' own chunks as with combining=True), optionally with one hole / "
    "overlap of one grid step injected between two chunks of the same subrun; non-trivial = >= 2 subruns and more "
    "chunks than subruns.  distinct = distinct descriptor hashes."
)
ASSUMPTIONS = [
    "run documents are truthful at the millisecond resolution of DataDirectory run metadata and strictly increasing "
    "in start; subrun time spans do not overlap (a run may start exactly where the previous one ends)",
    "rows sorted by time with positive duration, every row inside one chunk; zero-duration chunks are empty",
    "the subrun's range [S_r, E_r] is the range of its chunks (first chunk start .. last chunk end); the time between "
    "two subruns may be absorbed into the range of a neighbouring chunk but never into a subrun span",
    "a zero-length span {r: t..t} may be listed or left out for a chunk that merely touches subrun r",
    "combining=True yields the subruns' own chunks (run_id = subrun id); there the record of the constituent is the "
    "chunk's run_id and range",
    "plugin computations are chunking-invariant by definition (row-local, whole-run for ExhaustPlugin)",
    "numba-jitted helpers run as plain Python (NUMBA_DISABLE_JIT=1, same source); compiled behaviour: C07, C17-C19",
    "threaded runs: pre-emption at synchronisation operations only (controlled scheduler); mailbox capacity is "
    "above the number of chunks",
]
_COUNTER = itertools.count()
TABLE = {}  # token -> {run name: [(start, end, array)]}
ITEMSIZE = 32
SUP = "_sup"
# Steering (turning a failure that the spy attributes to a recorded finding into `Excluded`) applies ONLY to findings
# whose status in known_findings.json is "known".  All of C14's findings are fixed in /repo, so nothing is steered:
# a fixed entry suppresses nothing, and a regression of one of those shapes is a violation like any other.
def _known_c14():
    from vf import findings
    return {e["finding"] for e in findings.load() if e.get("status") == "known"}


KNOWN = _known_c14()


class _Steer:
    def __bool__(self):
        return bool(KNOWN) and not os.environ.get("C14_NO_STEER")


STEER = _Steer()


# ----------------------------------------------------------------------------------------------------
# generator
# ----------------------------------------------------------------------------------------------------
OPS = ["rowwise", "rowwise", "filter", "exhaust"]


@st.composite
def st_cuts(draw, rows, S, E):
    """Sorted admissible cut times.  Zero-duration chunks (a cut at the run border or a repeated cut) only in
    shape "zero": they are legal but rare in practice, and several recorded findings hang on them."""
    adm = gen.admissible_times(rows, S, E)
    inner = [x for x in adm if S < x < E]
    shape = draw(st.sampled_from(["few"] * 5 + ["none", "all", "all", "zero"]))
    if shape == "none" or (shape != "zero" and not inner):
        return []
    if shape == "all":
        return inner
    if shape == "few":
        return sorted(set(draw(st.lists(st.sampled_from(inner), min_size=1, max_size=3))))
    cuts = draw(st.lists(st.sampled_from(adm), min_size=1, max_size=3))
    if draw(st.booleans()):
        cuts = cuts + [cuts[draw(st.integers(0, len(cuts) - 1))]]
    return sorted(cuts)


@st.composite
def st_pool(draw, unit, n):
    """n runs in time order on the grid: [dict(start, end, rows, cuts)]"""
    P = 10 ** 6 // unit  # grid steps per millisecond
    runs = []
    t = draw(st.integers(0, 2)) * P + draw(st.integers(0, 3))
    for i in range(n):
        S = t
        mode = draw(st.sampled_from(["disjoint", "disjoint", "overlap", "sorted_end"]))
        head = draw(gen.st_rows(max_n=4, mode=mode, first_max=2, max_len=3))
        rows = [[a + S, b + S] for a, b in head]
        long = draw(st.sampled_from([True, True, False]))
        last = max([b for _, b in rows] + [S])
        if long:
            B = (S // P + 1) * P  # the next millisecond border: the run reaches it
            tail = draw(gen.st_rows(max_n=3, mode=mode, first_max=0, max_len=3))
            back = draw(st.integers(0, 4))
            t0 = max(last, B - back)
            rows += [[a + t0, b + t0] for a, b in tail]
            last = max([b for _, b in rows] + [S])
            E = max(B, last) + draw(st.integers(0, 2))
        else:
            E = max(last + draw(st.integers(0, 2)), S + 1)
        cuts = draw(st_cuts(rows, S, E))
        runs.append(dict(start=S, end=E, rows=rows, cuts=cuts))
        gap = draw(st.sampled_from(["tiny", "tiny", "tiny", "ms", "s"])) if long else draw(st.sampled_from(["ms", "ms", "s"]))
        if gap == "tiny":
            t = E + draw(st.integers(0, 3))
        elif gap == "ms":
            t = (E // P + 1 + draw(st.integers(0, 1))) * P + draw(st.integers(0, 3))
        else:
            PS = 10 ** 9 // unit
            t = (E // PS + 1) * PS + draw(st.integers(0, 3))
    return runs


@st.composite
def st_case(draw, threaded=False):
    unit = draw(st.sampled_from([1, 400, 400, 2000]))
    nsub = draw(st.sampled_from([1, 2, 2, 2, 3, 3, 4]))
    npool = nsub + draw(st.sampled_from([0, 0, 1]))
    pool = draw(st_pool(unit, npool))
    # run names: in a third of the cases the name order differs from the order of run start (permuted names, or
    # plain decimal names 8, 9, 10, 11 whose string order is not their numeric order)
    style = draw(st.sampled_from(["pad"] * 6 + ["perm"] * 2 + ["plain"]))
    names = draw(st.permutations(list(range(npool)))) if style == "perm" else list(range(npool))
    for r, nm in zip(pool, names):
        r["name"] = f"{nm + 8}" if style == "plain" else f"{nm:03d}"
    members = sorted(draw(st.permutations(list(range(npool))))[:nsub])
    A = list(draw(st.permutations(members)))
    B = None
    if npool >= 2:
        nb = draw(st.integers(1, min(4, npool)))
        cand = sorted(draw(st.permutations(list(range(npool))))[:nb])
        if cand == members:  # must be a different set: drop / swap one
            cand = cand[1:] if len(cand) > 1 else [x for x in range(npool) if x not in members][:1]
        B = list(draw(st.permutations(cand)))
    depth = draw(st.sampled_from([3, 2, 3, 2, 1]))
    k = draw(st.sampled_from([x for x in (1, 1, 2, 3) if x <= depth]))
    levels = []
    kind = {0: 0}
    for j in range(1, depth + 1):
        op = draw(st.sampled_from(OPS))
        if j >= k + 2 and kind[j - 1] == kind[j - 2] and draw(st.integers(0, 2)) == 0:
            op = "merge"
        lv = dict(op=op, mul=draw(st.integers(1, 3)), add=draw(st.integers(0, 5)), mod=draw(st.integers(2, 3)),
                  rem=draw(st.integers(0, 1)), ros=draw(st.booleans()), tr=draw(st.sampled_from([None, 1, 1, 2, 3])),
                  rol=draw(st.integers(0, 5)) == 0, sr=draw(st.integers(1, 3)),
                  sw=draw(st.sampled_from([3, 3, 3, 2])))
        if op == "exhaust":
            lv["rol"] = False
        levels.append(lv)
        kind[j] = j if op == "filter" else kind[j - 1]
    target = draw(st.sampled_from([depth, depth] + list(range(k, depth + 1))))
    nchunks = sum(len(r["cuts"]) + 1 for r in pool)
    cfg = dict(processor="threaded_mailbox" if threaded else "single_thread",
               max_workers=draw(st.sampled_from([1, 1, 2])), allow_lazy=draw(st.booleans()),
               max_messages=2 * nchunks + 4)
    return dict(unit=unit, pool=pool, A=A, B=B, levels=levels, k=k, target=target,
                src=dict(ros=draw(st.booleans()), tr=draw(st.sampled_from([None, 1, 2]))),
                write=draw(st.booleans()), allow_rechunk=draw(st.integers(0, 5)) > 0,
                mode=draw(st.sampled_from(["get", "get", "make", "combining"])),
                subruns_first=draw(st.booleans()), back=draw(st.booleans()),
                redef_fresh=draw(st.booleans()), cfg=cfg, policy=draw(policies.st_policy()))


# ----------------------------------------------------------------------------------------------------
# plugin classes
# ----------------------------------------------------------------------------------------------------
def lname(j):
    return "src" if j == 0 else f"lv{j}"


def fld(j):
    return f"v{j}"


def dtype_of(j):
    return np.dtype(strax.time_fields + [("id", np.int64), (fld(j), np.int64)])


def mb(rows):
    return (rows + 0.5) * ITEMSIZE / 1e6


def deps_of(d, j):
    if d["levels"][j - 1]["op"] == "merge":
        return [j - 2, j - 1]
    return [j - 1]


def kinds(d):
    kd = {0: "kk0"}
    for j, lv in enumerate(d["levels"], 1):
        kd[j] = f"kk{j}" if lv["op"] == "filter" else kd[j - 1]
    return kd


def build_classes(d, token):
    kd = kinds(d)
    src = d["src"]

    def is_ready(self, chunk_i):
        return chunk_i < len(TABLE[self._tok][self.run_id])

    def source_finished(self):
        return True

    def compute_src(self, chunk_i):
        s, e, data = TABLE[self._tok][self.run_id][chunk_i]
        return self.chunk(start=s, end=e, data=data.copy())

    body = dict(_tok=token, provides="src", depends_on=(), dtype=dtype_of(0), data_kind=kd[0],
                rechunk_on_save=bool(src["ros"]), is_ready=is_ready, source_finished=source_finished,
                compute=compute_src)
    if src["tr"]:
        body["chunk_target_size_mb"] = mb(src["tr"])
    classes = [type("P_src", (strax.Plugin,), body)]

    def compute(self, **kw):
        (x,) = kw.values()
        lv, j = self._lv, self._j
        op = lv["op"]
        if op == "filter":
            x = x[x[fld(j - 1)] % lv["mod"] == lv["rem"]]
        res = np.zeros(len(x), self.dtype)
        res["time"], res["endtime"], res["id"] = x["time"], x["endtime"], x["id"]
        if op == "rowwise":
            res[fld(j)] = lv["mul"] * x[fld(j - 1)] + lv["add"]
        elif op == "filter":
            res[fld(j)] = x[fld(j - 1)]
        elif op == "exhaust":
            res[fld(j)] = x[fld(j - 1)] + len(x)
        elif op == "merge":
            res[fld(j)] = x[fld(j - 2)] + 3 * x[fld(j - 1)]
        else:
            raise AssertionError(op)
        return res

    for j, lv in enumerate(d["levels"], 1):
        base = strax.ExhaustPlugin if lv["op"] == "exhaust" else strax.Plugin
        body = dict(_tok=token, _lv=lv, _j=j, provides=lname(j), depends_on=tuple(lname(x) for x in deps_of(d, j)),
                    dtype=dtype_of(j), data_kind=kd[j], rechunk_on_save=bool(lv["ros"]),
                    allow_superrun=j >= d["k"], save_when=strax.SaveWhen(lv["sw"]), compute=compute)
        if lv["tr"]:
            body["chunk_target_size_mb"] = mb(lv["tr"])
        if lv["rol"]:
            body["rechunk_on_load"] = True
            body["chunk_source_size_mb"] = mb(lv["sr"])
        classes.append(type(f"P_lv{j}", (base,), body))
    return classes


# ----------------------------------------------------------------------------------------------------
# pure reference
# ----------------------------------------------------------------------------------------------------
def src_rows(d, p):
    u = d["unit"]
    return [(a * u, b * u, p * 1000 + i, 7 * (p * 1000 + i) + 1) for i, (a, b) in enumerate(d["pool"][p]["rows"])]


def src_chunks(d, p):
    u = d["unit"]
    r = d["pool"][p]
    rows = src_rows(d, p)
    out = []
    for a, b, idx in gen.partition(r["rows"], r["start"], r["end"], r["cuts"]):
        x = np.zeros(len(idx), dtype_of(0))
        for n, i in enumerate(idx):
            x[n] = rows[i]
        out.append((a * u, b * u, x))
    return out


def apply_level(d, j, outs):
    lv = d["levels"][j - 1]
    op = lv["op"]
    if op == "merge":
        a, b = outs[j - 2], outs[j - 1]
        assert [r[:3] for r in a] == [r[:3] for r in b]
        return [(x[0], x[1], x[2], x[3] + 3 * y[3]) for x, y in zip(a, b)]
    x = outs[j - 1]
    if op == "rowwise":
        return [(t, e, i, lv["mul"] * v + lv["add"]) for t, e, i, v in x]
    if op == "filter":
        return [r for r in x if r[3] % lv["mod"] == lv["rem"]]
    if op == "exhaust":
        return [(t, e, i, v + len(x)) for t, e, i, v in x]
    raise AssertionError(op)


def expected(d, members, combining=False):
    """{level: rows} of the superrun made of the pool runs `members` (time order).  Levels below the first
    superrun level (all levels when combining) are evaluated per subrun, the others on the concatenation."""
    nlev = len(d["levels"])
    per = []
    upto = nlev if combining else d["k"] - 1
    for p in members:
        outs = {0: src_rows(d, p)}
        for j in range(1, upto + 1):
            outs[j] = apply_level(d, j, outs)
        per.append(outs)
    tot = {j: [r for o in per for r in o[j]] for j in range(0, upto + 1)}
    for j in range(upto + 1, nlev + 1):
        tot[j] = apply_level(d, j, tot)
    return tot


def rows_of(arr, j):
    return [(int(t), int(e), int(i), int(v)) for t, e, i, v in zip(arr["time"], arr["endtime"], arr["id"], arr[fld(j)])]


# ----------------------------------------------------------------------------------------------------
# spy on Chunk.split: recognises the recorded root causes (F15, F16, F1431) at the place where they happen, with an
# independent partition of the spans; F1430 is recognised where the run document is read back (define).
# A failure is attributed to a recorded finding only if the spy saw its root cause in this very case AND the failing
# clause / subrun / exception text is the one that root cause produces; then the case counts as steered away
# (Excluded) - the committed replays carry `nosteer` and are matched by the signatures below instead.
# ----------------------------------------------------------------------------------------------------
SPY = dict(f16=set(), f15=set(), f1430=None, f1431=False)


def _pos(spans):
    return {r: (v["start"], v["end"]) for r, v in (spans or {}).items() if v["end"] > v["start"]}


def _part(spans, t):
    left, right = {}, {}
    for r, (s, e) in spans.items():
        if s < min(e, t):
            left[r] = (s, min(e, t))
        if max(s, t) < e:
            right[r] = (max(s, t), e)
    return left, right


_orig_split = strax.Chunk.split


def _spy_split(self, t, allow_early_split=False):
    c1, c2 = _orig_split(self, t, allow_early_split=allow_early_split)
    try:
        tt = c1.end
        if self.subruns and isinstance(self.run_id, str) and self.run_id.startswith("_") \
                and not self.promised_continuity:
            # F16: the chunk does not start / end on a subrun border -> `subruns` copied to both pieces
            w1, w2 = _part(_pos(self.subruns), tt)
            g1, g2 = _pos(c1.subruns), _pos(c2.subruns)
            for w, g in ((w1, g1), (w2, g2)):
                for r in set(w) | set(g):
                    if w.get(r) != g.get(r):
                        SPY["f16"].add(r)
        # F1431: the left piece (the one that is processed / saved) of a superrun chunk lost all its subruns:
        # zero-length spans {r: t..t} are handed to the right piece only and then dropped as empty
        if self.subruns and c1.subruns is None:
            SPY["f1431"] = True
        # F15: a piece whose own spans are all empty falls back to {first run of the unsplit chunk: piece range}
        whole = {r: (v["start"], v["end"]) for r, v in (self.superrun or {}).items()}
        if len(whole) >= 2:
            for c in (c1, c2):
                for r, (s, e) in _pos(c.superrun).items():
                    if r in whole and not (whole[r][0] <= s and e <= whole[r][1]):
                        SPY["f15"].add(r)
    except Exception:  # the spy must never disturb the run
        pass
    return c1, c2


class Problems:
    """Bookkeeping violations are collected (the row / storage / redefinition clauses are still evaluated behind
    them) and raised at the end of the case."""

    def __init__(self, d):
        self.d = d
        self.items = []  # (clause, detail, run name or None)

    def add(self, clause, detail, run=None):
        self.items.append((clause, detail, run))


# bookkeeping clauses about one subrun: a wrong span made by either root cause travels downstream through
# concatenation (spans merged), saving (metadata) and loading
ANNOT_F16 = ("annot.span_differs", "annot.unexpected_subrun", "annot.spans_not_adjacent", "annot.spans_incomplete",
             "annot.row_outside_span")
ANNOT_F15 = ANNOT_F16


def tags():
    out = ""
    if SPY["f16"]:
        out += "[F16-branch:split-of-superrun-chunk-not-aligned-with-its-subrun-spans runs=%s]" % sorted(SPY["f16"])
    if SPY["f1430"]:
        out += "[F1430-branch:sub_run_spec-in-name-order %s]" % SPY["f1430"]
    if SPY["f1431"]:
        out += "[F1431-branch:split-left-piece-of-superrun-chunk-lost-its-subruns]"
    if SPY["f15"]:
        out += "[F15-branch:split-piece-with-only-empty-spans-relabelled runs=%s]" % sorted(SPY["f15"])
    return out


def attributable(clause, run, text=""):
    """Name of the recorded finding that explains this failure, judged by the spy, else None."""
    if SPY["f16"]:
        if clause in ANNOT_F16 and run in SPY["f16"]:
            return "F16"
        if clause.endswith(".raised:ValueError") and ("was split into chunks" in text or "Subruns are overlapping" in text) \
                and any(f"Run {r} " in text or f"'{r}'" in text for r in SPY["f16"]):
            return "F16"
    if SPY["f15"] and clause in ANNOT_F15 and run in SPY["f15"]:
        return "F15"
    if SPY["f1431"] and (clause == "annot.no_subruns"
                         or (clause.endswith(".raised:TypeError") and "'NoneType' object is not subscriptable" in text)
                         or (clause.endswith(".raised:ValueError") and "has no subruns information" in text)):
        return "F1431"
    if SPY["f1430"] and ((clause.endswith(".raised:ValueError") and "out-of-order" in text)
                         or clause.endswith("rows_differ") or clause.startswith("combining.")):
        return "F1430"
    return None


@signature("C14_F16_split_of_unaligned_superrun_chunk")
def _sig_f16(sub, desc, bucket, message):
    """Chunk.split copies `subruns` to both pieces when the superrun chunk does not start/end on a subrun border
    (it begins in an inter-run gap): seen as overlapping / wrong spans of a later subrun in yielded and stored
    superrun chunks, or as ValueError 'Run X was split into chunks' from the next concatenation."""
    if "[F16-branch:" not in message or not bucket.startswith("clause:"):
        return False
    cl = bucket[len("clause:"):]
    return cl in ANNOT_F16 or (cl.endswith(".raised:ValueError") and (
        "was split into chunks" in message or "Subruns are overlapping" in message))


@signature("C14_F15_gap_chunk_before_zero_duration_first_chunk")
def _sig_f15(sub, desc, bucket, message):
    """A subrun whose first chunk has zero duration: the chunk covering the inter-run gap is labelled with the
    previous subrun and a span outside that subrun."""
    return "[F15-branch:" in message and bucket in ("clause:" + c for c in ANNOT_F15) and _first_chunk_zero(desc)


@signature("C14_F1431_zero_duration_superrun_chunk_loses_subruns")
def _sig_f1431(sub, desc, bucket, message):
    """Splitting a superrun chunk whose spans are all of zero length (a zero-duration chunk) at its end gives the
    left piece subruns=None: continuity_check then fails on the next chunk (TypeError), the chunk is stored with
    subruns null and the stored superrun cannot be loaded (ValueError 'has no subruns information')."""
    zero = any(a == b for r in desc["pool"] for a, b in zip([r["start"]] + r["cuts"], r["cuts"] + [r["end"]]))
    return ("[F1431-branch:" in message and zero and (
        bucket == "clause:annot.no_subruns"
        or (bucket.endswith(".raised:TypeError") and "'NoneType' object is not subscriptable" in message)
        or (bucket.endswith(".raised:ValueError") and "has no subruns information" in message)))


@signature("C14_F1430_sub_run_spec_in_name_order")
def _sig_f1430(sub, desc, bucket, message):
    """DataDirectory writes run documents with sort_keys=True: the order of sub_run_spec (sorted by run start in
    define_run) is replaced by the order of the run NAMES, and the subruns are chained in that order."""
    names = [r["name"] for r in desc["pool"]]
    return ("[F1430-branch:" in message and names != sorted(names) and bucket.startswith("clause:")
            and ((bucket.endswith(".raised:ValueError") and "out-of-order" in message)
                 or bucket.endswith("rows_differ") or bucket.startswith("clause:combining.")))


def _first_chunk_zero(desc):
    return any(r["cuts"] and r["cuts"][0] == r["start"] for r in desc["pool"][1:])


# ----------------------------------------------------------------------------------------------------
# oracle for the bookkeeping
# ----------------------------------------------------------------------------------------------------
def check_annot(P, what, chunks, ranges, owner=None, ordered=True):
    """chunks: [(start, end, run_id, subruns dict|None, rows|None)]; ranges: [(name, S, E)] in time order.
    ordered=False for chunk metadata read from JSON (the order of an object's keys carries no meaning there)."""
    if not chunks:
        P.add("annot.no_chunks", what)
        return
    R = {n: (s, e) for n, s, e in ranges}
    order = [n for n, _, _ in ranges]
    if chunks[0][0] != ranges[0][1] or chunks[-1][1] != ranges[-1][2]:
        P.add("annot.overall_range", f"{what}: chunks cover {chunks[0][0]}..{chunks[-1][1]}, subruns {ranges}")
    prev = None
    per = collections.defaultdict(list)
    for ci, (cs, ce, rid, sub, rows) in enumerate(chunks):
        if rid != SUP:
            P.add("annot.run_id", f"{what}: chunk {ci} has run_id {rid!r}")
        if prev is not None:
            if cs < prev:
                P.add("annot.chunks_overlap", f"{what}: chunk {ci} starts at {cs}, previous ended {prev}")
            elif cs > prev and any(s < cs and prev < e for s, e in R.values()):
                P.add("annot.hole_inside_subrun", f"{what}: nothing between {prev} and {cs}; subruns {ranges}")
        prev = ce
        if not isinstance(sub, dict) or not sub:
            P.add("annot.no_subruns", f"{what}: chunk {ci} [{cs},{ce}] has subruns={sub!r}")
            continue
        got = {r: (int(v["start"]), int(v["end"])) for r, v in sub.items()}
        keys = list(sub)
        if ordered and (keys != sorted(keys, key=lambda r: got[r][0])
                        or [r for r in order if r in got] != [r for r in keys if r in R]):
            P.add("annot.key_order", f"{what}: chunk {ci} subruns {sub}")
        for r in order:
            S, E = R[r]
            lo, hi = max(cs, S), min(ce, E)
            if lo < hi:
                if got.get(r) != (lo, hi):
                    P.add("annot.span_differs", f"{what}: chunk {ci} [{cs},{ce}] lists {r}: {got.get(r)}, built from "
                                                f"{r}: {(lo, hi)} (subrun range {(S, E)}); subruns={sub}", r)
                per[r].append(got.get(r, (lo, hi)))
            elif r in got:
                s, e = got[r]
                if not (s == e and S <= s <= E and cs <= s <= ce):
                    P.add("annot.unexpected_subrun", f"{what}: chunk {ci} [{cs},{ce}] lists {r}: {(s, e)} but does not "
                                                     f"reach into its range {(S, E)}; subruns={sub}", r)
        for r in got:
            if r not in R:
                P.add("annot.unknown_subrun", f"{what}: chunk {ci} lists {r!r}, superrun = {order}")
        if rows is not None and owner is not None:
            for t, e, i, _ in rows:
                if t < cs or e > ce:
                    P.add("annot.row_outside_chunk", f"{what}: row {(t, e)} in chunk [{cs},{ce}]")
                r = owner[i]
                sp = got.get(r)
                if sp is None or t < sp[0] or e > sp[1]:
                    P.add("annot.row_outside_span", f"{what}: row {(t, e)} of {r} in chunk {ci} [{cs},{ce}] with "
                                                    f"subruns {sub}", r)
    for r in order:
        S, E = R[r]
        sp = per[r]
        if not sp:
            P.add("annot.spans_incomplete", f"{what}: no chunk lists {r} {(S, E)}", r)
            continue
        if any(a[1] != b[0] for a, b in zip(sp[:-1], sp[1:])):
            P.add("annot.spans_not_adjacent", f"{what}: {r} spans {sp}", r)
        if sp[0][0] != S or sp[-1][1] != E:
            P.add("annot.spans_incomplete", f"{what}: {r} spans {sp} do not make up {(S, E)}", r)


def check_combining(P, what, chunks, ranges):
    """combining=True hands out the subruns' own chunks: run_id = subrun, contiguous and complete per subrun."""
    R = {n: (s, e) for n, s, e in ranges}
    seq = []
    for ci, (cs, ce, rid, sub, rows) in enumerate(chunks):
        if rid not in R:
            P.add("combining.run_id", f"{what}: chunk {ci} [{cs},{ce}] has run_id {rid!r}, subruns {ranges}")
            continue
        if sub and {r: (v["start"], v["end"]) for r, v in sub.items()} != {rid: (cs, ce)}:
            P.add("combining.subruns", f"{what}: chunk {ci} [{cs},{ce}] of {rid} has subruns {sub}", rid)
        if not seq or seq[-1][0] != rid:
            seq.append((rid, []))
        seq[-1][1].append((cs, ce))
    if [r for r, _ in seq] != [n for n, _, _ in ranges]:
        P.add("combining.subrun_order", f"{what}: chunks come from {[r for r, _ in seq]}, subruns {ranges}")
    for r, sp in seq:
        if sp[0][0] != R[r][0] or sp[-1][1] != R[r][1] or any(a[1] != b[0] for a, b in zip(sp[:-1], sp[1:])):
            P.add("combining.spans", f"{what}: chunks of {r} {sp} do not make up {R[r]}", r)


# ----------------------------------------------------------------------------------------------------
# the case
# ----------------------------------------------------------------------------------------------------
def run_case(d):
    token = f"c14-{os.getpid()}-{next(_COUNTER)}"
    path = c01.scratch_dir("c14")
    TABLE[token] = {}
    SPY["f16"].clear()
    SPY["f15"].clear()
    SPY["f1430"] = None
    SPY["f1431"] = False
    strax.Chunk.split = _spy_split
    try:
        return _run(d, token, path)
    finally:
        strax.Chunk.split = _orig_split
        TABLE.pop(token, None)
        shutil.rmtree(path, ignore_errors=True)


def fail(d, clause, detail, run=None, text=""):
    """Raise for a hard failure: Excluded when the spy attributes it to a recorded finding (and steering is on)."""
    f = attributable(clause, run, text or str(detail))
    if f and f in KNOWN and STEER and not d.get("nosteer"):
        raise Excluded(f)
    raise Violation(clause, tags() + (detail if isinstance(detail, str) else repr(detail)) + f" {json.dumps(d)}")


def _run(d, token, path):
    unit = d["unit"]
    pool = d["pool"]
    for p, r in enumerate(pool):
        TABLE[token][r["name"]] = src_chunks(d, p)
    classes = build_classes(d, token)
    cfg = d["cfg"]
    threaded = cfg["processor"] == "threaded_mailbox"
    tgt = d["target"]
    T = lname(tgt)
    k = d["k"]
    combining = d["mode"] == "combining"
    P = Problems(d)
    hit = []
    owner = {p * 1000 + i: r["name"] for p, r in enumerate(pool) for i in range(len(r["rows"]))}

    def mkctx():
        return strax.Context(storage=[strax.DataDirectory(path, provide_run_metadata=True)], register=classes,
                             write_superruns=bool(d["write"]), allow_rechunk=bool(d["allow_rechunk"]),
                             allow_multiprocess=False, timeout=60, allow_lazy=cfg["allow_lazy"],
                             max_messages=cfg["max_messages"])

    def job(what, fn, controlled):
        """Run fn (under the controlled scheduler for threaded requests); convert its failure."""
        S = None
        if controlled:
            S = Scheduler(policies.make_policy(d["policy"]), max_steps=400000)
            with S.installed():
                res, exc = S.run(fn)
        else:
            try:
                res, exc = fn(), None
            except Exception as e:  # noqa
                res, exc = None, e
        if exc is not None:
            text = " | ".join(f"{type(e).__name__}: {e}" for e in exception_chain(exc))
            f = attributable(what + ".raised:" + type(_root(exc)).__name__, None, text)
            if f and f in KNOWN and STEER and not d.get("nosteer"):
                raise Excluded(f)
            raise Violation(what + ".raised:" + type(_root(exc)).__name__,
                            tags() + text[:1500] + f" {json.dumps(d)}") from exc
        c01.check_sched(S, d)
        return res

    def query(ctx, what, run_id, target, controlled=False, **kw):
        proc = cfg["processor"] if controlled else "single_thread"
        chunks = job(what, lambda: list(ctx.get_iter(run_id, target, processor=proc, progress_bar=False,
                                                     multi_run_progress_bar=False,
                                                     max_workers=cfg["max_workers"] if controlled else 1, **kw)),
                     controlled)
        j = int(target[2:]) if target != "src" else 0
        return [(c.start, c.end, c.run_id, c.subruns, rows_of(c.data, j)) for c in chunks], chunks

    def ranges_of(members):
        return [(pool[p]["name"], pool[p]["start"] * unit, pool[p]["end"] * unit) for p in members]

    def define(ctx, lst, what):
        job(what, lambda: ctx.define_run(SUP, [pool[p]["name"] for p in lst]), False)
        spec = ctx.run_metadata(SUP)["sub_run_spec"]
        want = [pool[p]["name"] for p in sorted(lst)]
        if sorted(spec) != sorted(want) or any(v != "all" for v in spec.values()):
            fail(d, what + ".sub_run_spec", f"sub_run_spec {spec}, defined from {want}")
        if list(spec) != want:
            # F1430: the run document lists the subruns in NAME order, not in order of run start
            SPY["f1430"] = f"{list(spec)} instead of {want}"
            if "F1430" in KNOWN and STEER and not d.get("nosteer"):
                raise Excluded("F1430")
            # (the order of the spec is an implementation detail; what the property demands - rows in order of run
            # start - is decided by the queries that follow)

    def sub_arrays(ctx, members):
        out = {}
        for p in members:
            nm = pool[p]["name"]
            arr = job("subrun", lambda: ctx.get_array(nm, T, progress_bar=False), False)
            outs = {0: src_rows(d, p)}
            for j in range(1, tgt + 1):
                outs[j] = apply_level(d, j, outs)
            if rows_of(arr, tgt) != outs[tgt]:
                fail(d, "subrun.rows_differ_from_reference", f"{nm}: {rows_of(arr, tgt)[:8]} expected {outs[tgt][:8]}")
            out[p] = arr
        return out

    def check_rows(what, got_rows, want):
        if got_rows != want:
            fail(d, what + ".rows_differ", f"got {got_rows[:10]}... ({len(got_rows)}) expected {want[:10]}... "
                                           f"({len(want)})")

    # ---- define -------------------------------------------------------------------------------
    write_docs(path, d)
    ctxA = mkctx()
    members = sorted(d["A"])
    define(ctxA, d["A"], "define")
    ranges = ranges_of(members)
    exp = expected(d, members, combining)
    whole_run_above = any(d["levels"][j - 1]["op"] == "exhaust" for j in range(k, tgt + 1))
    arrs = sub_arrays(ctxA, members) if d["subruns_first"] else None

    # ---- the request under test ------------------------------------------------------------------
    kw = dict(combining=True) if combining else {}
    if d["mode"] == "make":
        job("make", lambda: ctxA.make(SUP, T, processor=cfg["processor"], max_workers=cfg["max_workers"],
                                      multi_run_progress_bar=False), threaded)
    chunks, raw = query(ctxA, "query", SUP, T, controlled=threaded, **kw)
    got_rows = [r for c in chunks for r in c[4]]
    check_rows("query", got_rows, exp[tgt])
    if arrs is None:
        arrs = sub_arrays(ctxA, members)
    if combining or not whole_run_above:
        cat = np.concatenate([arrs[p] for p in members])
        got_arr = np.concatenate([c.data for c in raw])
        if not gen.arrays_equal(got_arr, cat):
            fail(d, "query.not_concatenation_of_subrun_arrays", f"{got_arr} vs {cat}")
    else:
        hit.append("whole_run_level_on_superrun")
    if combining:
        check_combining(P, "yielded(combining)", chunks, ranges)
    else:
        check_annot(P, "yielded" if not (d["mode"] == "make" and d["write"]) else "loaded-after-make", chunks, ranges,
                    owner)
    if any(c[3] and len(_pos(c[3])) >= 2 for c in chunks):
        hit.append("yielded_chunk_spans_border")

    # ---- what is stored; re-read in a fresh context -----------------------------------------------
    ctxB = mkctx()
    for j in range(k, len(d["levels"]) + 1):
        want_stored = bool(d["write"]) and not combining and j <= tgt and (d["levels"][j - 1]["sw"] == 3 or j == tgt)
        for ctx in (ctxA, ctxB):
            st_now = ctx.is_stored(SUP, lname(j))
            if st_now != want_stored:
                fail(d, "stored.is_stored", f"{lname(j)}: is_stored={st_now}, expected {want_stored} "
                                            f"(write_superruns={d['write']}, mode={d['mode']})")
        if ctxB.is_stored(SUP, lname(j), combining=True):
            fail(d, "stored.combining_key_stored", lname(j))
        if not want_stored:
            continue
        md = job("reread", lambda: ctxB.get_metadata(SUP, lname(j)), False)
        mchunks = [(c["start"], c["end"], c["run_id"], c.get("subruns"), None) for c in md["chunks"]]
        check_annot(P, f"metadata({lname(j)})", mchunks, ranges, ordered=False)
        lchunks, _ = query(ctxB, "reread", SUP, lname(j), controlled=threaded and j == tgt)
        rr = [r for c in lchunks for r in c[4]]
        check_rows(f"reread({lname(j)})", rr, exp[j])
        if j == tgt and rr != got_rows:
            fail(d, "reread.differs_from_on_the_fly", f"{rr[:10]} vs {got_rows[:10]}")
        check_annot(P, f"loaded({lname(j)})", lchunks, ranges, owner)
        if not d["levels"][j - 1]["rol"]:
            a = [(c[0], c[1], c[2], _plain(c[3]), len(c[4])) for c in lchunks]
            b = [(c["start"], c["end"], c["run_id"], _plain(c.get("subruns")), c["n"]) for c in md["chunks"]]
            if a != b:
                P.add("annot.metadata_differs", f"{lname(j)}: loaded {a} metadata {b}")
        else:
            hit.append("rechunk_on_load")
        if any(len(_pos(c[3])) >= 2 for c in mchunks if c[3]):
            hit.append("stored_chunk_spans_border")
        hit.append("stored_superrun")

    # ---- redefinition -------------------------------------------------------------------------------
    if d["B"] is not None:
        ctxR = mkctx() if d["redef_fresh"] else ctxA
        membersB = sorted(d["B"])
        define(ctxR, d["B"], "redefine")
        for ctx in (ctxR, ctxB):
            for j in range(k, len(d["levels"]) + 1):
                for cmb in (False, True):
                    if ctx.is_stored(SUP, lname(j), combining=cmb):
                        fail(d, "redefine.still_stored", f"{lname(j)} combining={cmb}: is_stored is True after "
                                                         f"redefining {members} -> {membersB}")
        expB = expected(d, membersB, combining)
        chunksB, _ = query(ctxR, "redefine.query", SUP, T, controlled=False, **kw)
        rowsB = [r for c in chunksB for r in c[4]]
        if rowsB != expB[tgt]:
            stale = rowsB == got_rows
            fail(d, "redefine.stale_rows" if stale else "redefine.rows_differ",
                 f"after redefining {members} -> {membersB}: got {rowsB[:10]}... expected {expB[tgt][:10]}...")
        if combining:
            check_combining(P, "yielded-after-redefinition(combining)", chunksB, ranges_of(membersB))
        else:
            check_annot(P, "yielded-after-redefinition", chunksB, ranges_of(membersB), owner)
        hit.append("redefined")
        if d["back"]:
            define(ctxR, d["A"], "define_back")
            chunksC, _ = query(ctxR, "define_back.query", SUP, T, controlled=False, **kw)
            if [r for c in chunksC for r in c[4]] != exp[tgt]:
                fail(d, "define_back.rows_differ", f"{[r for c in chunksC for r in c[4]][:10]} vs {exp[tgt][:10]}")
            hit.append("defined_back")

    # ---- deferred bookkeeping violations -----------------------------------------------------------
    if P.items:
        known = [attributable(c, r, det) for c, det, r in P.items]
        if all(known) and all(k in KNOWN for k in known) and STEER and not d.get("nosteer"):
            raise Excluded(known[0])
        i = next((n for n, f in enumerate(known) if not f), 0)
        clause, det, r = P.items[i]
        raise Violation(clause, tags() + det + f" ({len(P.items)} bookkeeping problems: "
                                               f"{sorted(set(c for c, _, _ in P.items))}) {json.dumps(d)}")

    # ---- classification -----------------------------------------------------------------------------
    lay = [tuple(c - pool[p]["start"] for c in pool[p]["cuts"]) for p in members]
    multi_chunk = any(len(pool[p]["cuts"]) >= 1 for p in members)
    across = "yielded_chunk_spans_border" in hit or "stored_chunk_spans_border" in hit
    nt = len(members) >= 2 and multi_chunk and (across or len(set(lay)) > 1)
    cl = set(hit)
    cl.add(f"subruns={len(members)}")
    cl.add(f"depth={len(d['levels'])},k={k},target={tgt}")
    cl.add("mode:" + d["mode"])
    cl.add("write" if d["write"] else "nowrite")
    cl.add(cfg["processor"])
    cl.update("op@superrun:" + d["levels"][j - 1]["op"] for j in range(k, tgt + 1))
    cl.add(f"superrun_levels={tgt - k + 1}")
    cl.update("op@subrun:" + d["levels"][j - 1]["op"] for j in range(1, k))
    if d["A"] != members:
        cl.add("defined_in_shuffled_order")
    if [pool[p]["name"] for p in members] != sorted(pool[p]["name"] for p in members):
        cl.add("name_order!=time_order")
    for a, b in zip(members[:-1], members[1:]):
        g = (pool[b]["start"] - pool[a]["end"]) * unit
        cl.add("gap:0" if g == 0 else "gap:<=1000ns" if g <= 1000 else "gap:<1ms" if g < 10 ** 6 else "gap:>=1ms")
    if any(a == b for p in members for a, b in zip([pool[p]["start"]] + pool[p]["cuts"], pool[p]["cuts"] + [pool[p]["end"]])):
        cl.add("zero_duration_chunk")
    if any(not pool[p]["rows"] for p in members):
        cl.add("empty_subrun")
    if SPY["f16"]:
        cl.add("F16_branch_taken_without_visible_effect")
    if not d["allow_rechunk"]:
        cl.add("allow_rechunk=False")
    return dict(nt=nt, classes=sorted(cl))


def _root(exc):
    last = exc
    for e in exception_chain(exc):
        last = e
    return last


def _plain(sub):
    return None if sub is None else {r: (int(v["start"]), int(v["end"])) for r, v in sub.items()}


def write_docs(path, d):
    epoch = datetime.datetime(1970, 1, 1, tzinfo=pytz.utc)
    u = d["unit"]
    os.makedirs(path, exist_ok=True)
    sf = strax.DataDirectory(path, provide_run_metadata=True)
    for r in d["pool"]:
        doc = dict(name=r["name"], start=epoch + datetime.timedelta(milliseconds=(r["start"] * u) // 10 ** 6),
                   end=epoch + datetime.timedelta(milliseconds=-((-r["end"] * u) // 10 ** 6)))
        with open(sf._run_meta_path(r["name"]), "w") as f:
            json.dump(doc, f, default=json_util.default)


# ----------------------------------------------------------------------------------------------------
# continuity across subrun borders (strax.continuity_check on hand-built streams)
# ----------------------------------------------------------------------------------------------------
# A stream that is the ordered concatenation of the subruns' chunks - as superrun chunks (run_id = superrun, each
# listing the pieces it is built from; with or without the inter-run time absorbed into the following chunk) or as
# the subruns' own chunks (combining=True) - is continuous by definition: get_iter must let it through unchanged,
# whatever the time between two subruns.  A hole or an overlap INSIDE a subrun must be rejected.
@st.composite
def st_cont(draw):
    unit = draw(st.sampled_from([1, 400, 2000]))
    n = draw(st.integers(1, 4))
    pool = draw(st_pool(unit, n))
    npieces = sum(len(r["cuts"]) + 1 for r in pool)
    return dict(unit=unit, pool=pool, style=draw(st.sampled_from(["superrun", "superrun", "combining"])),
                groups=draw(st.lists(st.integers(1, 3), min_size=npieces, max_size=npieces)),
                absorb=draw(st.booleans()), defect=draw(st.sampled_from([None, None, "hole", "overlap"])),
                k=draw(st.integers(0, 50)))


def mkchunk(start, end, run_id, subruns):
    x = np.zeros(0, dtype_of(0))
    return strax.Chunk(start=int(start), end=int(end), data=x, data_type="lv1", data_kind="kk0", dtype=x.dtype,
                       run_id=run_id, subruns=subruns)

def run_cont(d):
    u = d["unit"]
    pieces = []  # (run, a, b)
    for i, r in enumerate(d["pool"]):
        edges = [r["start"]] + list(r["cuts"]) + [r["end"]]
        pieces += [(f"{i:03d}", a * u, b * u) for a, b in zip(edges[:-1], edges[1:])]
    specs = []  # (start, end, run_id, spans)
    if d["style"] == "combining":
        specs = [(a, b, r, None) for r, a, b in pieces]
    else:
        i = 0
        for g in d["groups"]:
            grp = pieces[i:i + g]
            i += g
            if not grp:
                break
            spans = {}
            for r, a, b in grp:
                spans[r] = (spans[r][0], b) if r in spans else (a, b)
            start = grp[0][1]
            if d["absorb"] and specs:
                start = specs[-1][1]
            specs.append((start, grp[-1][2], SUP, spans))
    classes = [d["style"]]
    expect_error = None
    if d["defect"]:
        cand = []
        for n in range(len(specs) - 1):
            a, b = specs[n], specs[n + 1]
            if d["style"] == "combining":
                same = a[2] == b[2]
                room = b[1] - b[0] >= 2 * u
            else:
                same = list(a[3])[-1] == list(b[3])[0] and b[0] == b[3][list(b[3])[0]][0]
                f = b[3][list(b[3])[0]]
                room = f[1] - f[0] >= 2 * u
            if same and room and a[1] - a[0] >= 2 * u:
                cand.append(n + 1)
        if cand:
            n = cand[d["k"] % len(cand)]
            s, e, rid, spans = specs[n]
            delta = u if d["defect"] == "hole" else -u
            if spans is not None:
                first = list(spans)[0]
                spans = dict(spans)
                spans[first] = (spans[first][0] + delta, spans[first][1])
            specs[n] = (s + delta, e, rid, spans)
            expect_error = n
            classes.append("defect:" + d["defect"])
    chunks = [mkchunk(s, e, rid, None if sp is None else {r: dict(start=a, end=b) for r, (a, b) in sp.items()})
              for s, e, rid, sp in specs]
    got = []
    try:
        for c in strax.continuity_check(iter(chunks)):
            got.append(c)
    except ValueError as e:
        if expect_error is None:
            raise Violation("continuity.rejected_concatenation_of_subruns", f"{e} {specs} {d}")
        if len(got) != expect_error:
            raise Violation("continuity.rejected_at_wrong_chunk", f"{e} after {len(got)} chunks, defect at {expect_error} {specs} {d}")
        return dict(nt=True, classes=classes + ["rejected"])
    if expect_error is not None:
        raise Violation("continuity.accepted_" + d["defect"] + "_inside_subrun", f"{specs} {d}")
    if len(got) != len(chunks) or any(x is not y for x, y in zip(got, chunks)):
        raise Violation("continuity.chunks_changed", repr(d))
    holes = sum(1 for a, b in zip(specs[:-1], specs[1:]) if b[0] > a[1])
    if holes:
        classes.append("hole_at_subrun_border")
    if any(sp and len(sp) > 1 for _, _, _, sp in specs):
        classes.append("chunk_spans_border")
    return dict(nt=len(d["pool"]) >= 2 and len(specs) > len(d["pool"]), classes=classes)


SUBCHECKS = [
    SubCheck("single", run_case, strategy=lambda: st_case(threaded=False), quick=360, thorough=14000, min_per_shard=8),
    SubCheck("threaded", run_case, strategy=lambda: st_case(threaded=True), quick=140, thorough=6000, min_per_shard=5),
    SubCheck("continuity", run_cont, strategy=st_cont, quick=1600, thorough=60000, min_per_shard=100),
]
