"""C17 - interval primitives agree with their set-theoretic definitions.

Code under test: strax/processing/general.py (fully_contained_in, split_by_containment, touching_windows,
split_touching_windows, overlap_indices, diff, from_break/_find_break_i, abs_time_to_prev_next_interval,
sort_by_time) and strax/sort_enforcement.py (stable_sort, stable_argsort).

Oracle: vf/ref/c17_intervals.py - naive quadratic evaluation of the definitions on Python lists of
(start, end) pairs, written from the docstrings; never calls strax.

Sub-checks
  exh_*   exhaustive small-scope sweeps on the 7-point grid {0..6} (all sorted sequences of <=4 things x all
          admissible sequences of <=3 containers x both endtime encodings x windows -2..3); one descriptor is
          one things-configuration (+ encoding, window) and run() sweeps *all* container configurations.
          quick = a seed-chosen slice of the descriptors, thorough = all of them.
  rnd_*   random larger arrays (0..200 rows), grid scaled by a unit, realistic epoch offsets, mixed encodings.
  unsorted        inputs violating sortedness must be rejected by the five functions that promise the check.
  exh_sort/rnd_sort/sort_kinds   sort_by_time / stable_sort / stable_argsort == Python's stable sorted().
  fixed   hand-computed examples (anchor for the reference model).

Known findings: F1730 (float64 sort key without channel field), F1731 (fallback sort path not stable),
F1732 (int64 overflow of the sort key at the guard boundary).
"""
import functools
import warnings

import numba
import numpy as np
from hypothesis import strategies as st

import strax
from strax.processing import general as G
from strax.sort_enforcement import SortingError
from vf import gen
from vf.core import SubCheck, Violation
from vf.findings import signature
from vf.ref import c17_intervals as ref

PROPERTY_ID = "C17"
LEVEL = "exploration"
RULE = (
    "exh_* sub-checks enumerate a 7-point time grid {0..6}: every sequence of <=4 positive-length things sorted "
    "by start (25 761; 6 686 of them also sorted by end, 221 non-overlapping) against every admissible sequence of "
    "<=3 containers (2 934 sorted by start; 176 non-overlapping), both endtime encodings (endtime field / "
    "dt x length), windows -2..3.  One descriptor = one things-configuration (+ encodings, window); run() sweeps "
    "ALL container configurations for it (exh_contain: 176 non-overlapping containers x 4 encoding pairs; "
    "exh_touch: things with sorted endtimes x 2 934 containers x 6 windows x 2 encodings, exact oracle; "
    "exh_touch_weak: things with unsorted endtimes, only the documented weaker guarantee, <=3 containers for "
    "<=3 things and <=2 containers for 4 things; exh_prevnext: 221 x 221 non-overlapping things/intervals x 4 "
    "encoding pairs; exh_gaps: diff/_find_break_i/from_break on all 25 761 sequences x safe_break x not_before x "
    "left/right; exh_overlap: overlap_indices on all small integer ranges; exh_sort: all sequences of <=4 rows "
    "over 3 times x 3 channels).  thorough = every descriptor, quick = a seed-chosen pseudo-random slice "
    "(exh_contain 1/10, exh_touch 1/64, exh_touch_weak 1/48; exh_prevnext, exh_gaps, exh_overlap, exh_sort are complete in "
    "both tiers; `fixed` = hand-computed examples for every primitive x encoding pair, also committed as a "
    "regression replay).  The runner's "
    "`inner` counter is the number of (things, containers[, window]) configurations evaluated inside the "
    "descriptors.  rnd_* sub-checks draw shape parameters from Hypothesis and build arrays of 0..200 rows from the descriptor's "
    "seed (grid scaled by a unit, epoch offsets, mixed encodings; containers partly derived from the things so "
    "that endpoints coincide).  A case is non-trivial when some endpoint of a thing coincides with an endpoint of "
    "a container/interval, or an input is empty, or the window is non-zero (for sort checks: some key tie; for "
    "gap checks: a zero gap or an overlap; for unsorted: always).  distinct = distinct descriptor hashes."
)
ASSUMPTIONS = [
    "rows have positive duration (laws of chunking: no zero-duration rows); time values < 2**62",
    "things and containers sorted by time; containers non-overlapping for fully_contained_in/split_by_containment; "
    "things and intervals non-overlapping for abs_time_to_prev_next_interval",
    "touching_windows: exact oracle only when the things' endtimes are sorted too; with unsorted endtimes only "
    "the documented weaker guarantee (every truly touching thing lies inside the returned window) is checked",
    "touching means distance < window, i.e. thing.end > container.start - window and thing.start < container.end "
    "+ window (the reading confirmed in the design round; the docstring's 'window = -1' example has the sign of "
    "the window the other way round)",
    "dt-encoded rows have length*dt < 2**31 (strax.endtime multiplies int32 by int16)",
    "rejection of unsorted input is demanded of fully_contained_in, split_by_containment, touching_windows, "
    "split_touching_windows and abs_time_to_prev_next_interval (the functions that document/perform the check); "
    "diff/from_break/_find_break_i only document 'assumes sorted' and are not fed unsorted data",
    "_find_break_i documents 'all x have the same length'; rows of unequal length are generated as well and judged "
    "by the natural generalisation (gap measured from the latest end seen so far), counted as class mixed_length",
    "stable_sort with order= on structured arrays is only judged where numpy's tie-break by the remaining fields "
    "coincides with input order (the only remaining field is the running id)",
]

ENCS = ("endtime", "dt")
WINDOWS = (-2, -1, 0, 1, 2, 3)
GRID = 6  # points 0..6
IVS = [(a, b) for a in range(GRID + 1) for b in range(a + 1, GRID + 1)]  # 21 positive-length intervals


def check(cond, clause, detail=""):
    if not cond:
        raise Violation(clause, detail if isinstance(detail, str) else repr(detail))


class _Quiet:
    """strax/processing/general.py switches UserWarnings to 'always'; silence them for the duration of a case."""

    def __enter__(self):
        self.cw = warnings.catch_warnings()
        self.cw.__enter__()
        warnings.simplefilter("ignore")

    def __exit__(self, *a):
        return self.cw.__exit__(*a)


def quiet(fn):
    @functools.wraps(fn)
    def wrapped(d):
        with _Quiet():
            return fn(d)

    return wrapped


# ------------------------------------------------------------------------------------------------
# array construction
# ------------------------------------------------------------------------------------------------
def mk(rows, enc="endtime", unit=1, dt=1, base=0, extra=()):
    """Structured array (time + endtime | time + length + dt, id[, extra]) of rows on the grid * unit + base."""
    x = np.zeros(len(rows), gen.time_dtype(enc, [("id", np.int64)] + list(extra)))
    if len(rows):
        r = np.asarray(rows, dtype=np.int64).reshape(-1, 2)
        x["time"] = base + r[:, 0] * unit
        if enc == "endtime":
            x["endtime"] = base + r[:, 1] * unit
        else:
            assert unit % dt == 0 and dt < 2 ** 15
            ln = (r[:, 1] - r[:, 0]) * (unit // dt)
            assert (ln * dt < 2 ** 31).all()
            x["dt"] = dt
            x["length"] = ln
    x["id"] = np.arange(len(rows))
    return x


def scaled(rows, unit=1, base=0):
    return [(base + a * unit, base + b * unit) for a, b in rows]


def same_bytes(a, b):
    return a.dtype == b.dtype and len(a) == len(b) and a.tobytes() == b.tobytes()


@numba.njit(cache=True)
def _typed_list_to_list(tl):
    out = []
    for a in tl:
        out.append(a)
    return out


def as_list(sp):
    """numba.typed.List -> plain list of arrays.  Touching a typed list from Python (len, [], iteration) makes
    numba compile one accessor per method and list type in every worker process (~10 s); this helper only copies
    the references out in one jitted loop."""
    if isinstance(sp, list):
        return sp
    return _typed_list_to_list(sp)


def near(rows, i, k=2):
    """The rows around index i (with their indices), for readable violation messages on large arrays."""
    lo = max(0, i - k)
    return [(j, rows[j]) for j in range(lo, min(len(rows), i + k + 1))]


def mismatch(got, want, things, others, ctx, index_is_container=False):
    """Describe the first thing whose result differs: local evidence first, the (long) descriptor last."""
    if len(got) != len(want):
        return repr(("result length", len(got), "expected", len(want), ctx))
    i = next(k for k in range(len(want)) if got[k] != want[k])
    out = ["thing", i, things[i], "got", got[i], "want", want[i]]
    if index_is_container:
        for name, j in (("got_container", got[i]), ("want_container", want[i])):
            if 0 <= j < len(others):
                out += [name, others[j]]
    out += ["n_things", len(things), "n_others", len(others), "things_near", near(things, i)]
    if len(things) <= 8 and len(others) <= 8:
        out += ["things", things, "others", others]
    return repr(tuple(out) + ("ctx", ctx))


def int_list(a):
    a = np.asarray(a)
    if a.dtype.kind not in "iu":
        raise Violation("result.not_integer", repr(a.dtype))
    return a.tolist()


# ------------------------------------------------------------------------------------------------
# enumeration of the small scope
# ------------------------------------------------------------------------------------------------
def _seqs(maxn, ok):
    """All sequences of <= maxn intervals sorted by start with ok(previous, next) for neighbours, as tuples."""
    out = [()]
    frontier = [()]
    for _ in range(maxn):
        new = []
        for s in frontier:
            for iv in IVS:
                if s and (iv[0] < s[-1][0] or not ok(s, iv)):
                    continue
                new.append(s + (iv,))
        out += new
        frontier = new
    return out


@functools.lru_cache(None)
def space(name):
    if name == "T_ANY":
        return _seqs(4, lambda s, iv: True)
    if name == "T_BOTH":  # sorted by start and by end
        return _seqs(4, lambda s, iv: iv[1] >= s[-1][1])
    if name == "T_UNS":  # sorted by start, endtimes not sorted
        both = set(space("T_BOTH"))
        return [s for s in space("T_ANY") if s not in both]
    if name == "T_DISJ":
        return _seqs(4, lambda s, iv: iv[0] >= s[-1][1])
    if name == "C_ANY":
        return _seqs(3, lambda s, iv: True)
    if name == "C_DISJ":
        return _seqs(3, lambda s, iv: iv[0] >= s[-1][1])
    raise KeyError(name)


@functools.lru_cache(None)
def space_arrays(name, enc):
    return [mk(c, enc) for c in space(name)]


@functools.lru_cache(None)
def space_points(name):
    return [frozenset(p for r in c for p in r) for c in space(name)]


def inner_nt(things, name, always=False, maxlen=99):
    """(#configurations of space `name`, #non-trivial ones) for one things-configuration: non-trivial = shares an
    endpoint with a thing, or one side is empty (or `always`, e.g. non-zero window)."""
    confs = [c for c in space(name) if len(c) <= maxlen]
    if always or not things:
        return len(confs), len(confs)
    pts = {p for r in things for p in r}
    return len(confs), sum(1 for c, cp in zip(space(name), space_points(name))
                           if len(c) <= maxlen and (not c or not pts.isdisjoint(cp)))


def pick(j, seed, k):
    """Seed-chosen pseudo-random 1/k slice of an enumeration (k == 1: everything)."""
    if k <= 1:
        return True
    return ((((j + 1) * 2654435761 + (seed + 1) * 2246822519) & 0xFFFFFFFF) * k) >> 32 == 0


def sliced(it, tier, seed, k_quick):
    k = 1 if tier == "thorough" else k_quick
    for j, d in enumerate(it):
        if pick(j, seed, k):
            yield d


def lists(seq):
    return [list(r) for r in seq]


# ------------------------------------------------------------------------------------------------
# containment: fully_contained_in, split_by_containment
# ------------------------------------------------------------------------------------------------
def check_containment(x, c, things, conts, ctx):
    """things/conts: (start, end) lists matching the arrays x/c.  Returns the expected container indices."""
    exp = ref.fully_contained_in(things, conts)
    got = int_list(strax.fully_contained_in(x, c))
    if got != exp:
        raise Violation("contain.fully_contained_in", mismatch(got, exp, things, conts, ctx, index_is_container=True))
    sp = as_list(strax.split_by_containment(x, c))
    check(len(sp) == len(conts), "contain.split_length", (ctx, things, conts, len(sp)))
    if len(conts):
        ea = np.asarray(exp)
        for j in range(len(conts)):
            g = sp[j]
            want = x[ea == j] if len(things) else x[:0]
            check(same_bytes(np.asarray(g), want), "contain.split_rows",
                  (ctx, "things", things, "containers", conts, "container", j, "got_ids", g["id"].tolist(),
                   "want_ids", want["id"].tolist()))
    return exp


def enum_contain(tier, seed):
    def gen_all():
        for t in space("T_ANY"):
            for et in ENCS:
                for ec in ENCS:
                    yield dict(things=lists(t), enc=[et, ec])

    return sliced(gen_all(), tier, seed, 10)


@quiet
def run_exh_contain(d):
    things = [tuple(r) for r in d["things"]]
    et, ec = d["enc"]
    x = mk(things, et)
    for conts, c in zip(space("C_DISJ"), space_arrays("C_DISJ", ec)):
        check_containment(x, c, things, list(conts), d["enc"])
    n_in, n_nt = inner_nt(things, "C_DISJ")
    classes = [f"n_things_{len(things)}", f"enc_{et}_{ec}"]
    ends = [b for _, b in things]
    if ends != sorted(ends):
        classes.append("things_endtimes_unsorted")
    if any(things[i + 1][0] < max(b for _, b in things[: i + 1]) for i in range(len(things) - 1)):
        classes.append("things_overlap")
    if len(set(things)) < len(things):
        classes.append("duplicate_things")
    return dict(nt=True, classes=classes, inner_evaluations=n_in, inner_nontrivial=n_nt)


# ------------------------------------------------------------------------------------------------
# touching windows
# ------------------------------------------------------------------------------------------------
def check_touching(x, c, things, conts, w, exact, ctx, exp_of=None):
    """exact: the things' endtimes are sorted -> the window is exactly the touching things; otherwise only
    window >= touching things (documented weaker guarantee)."""
    n = len(things)
    got = strax.touching_windows(x, c, window=w)
    got = np.asarray(got)
    check(got.shape == (len(conts), 2), "touch.shape", (ctx, things, conts, w, got.shape))
    rows = int_list(got)
    stats = set()
    for k, (l, r) in enumerate(rows):
        t = exp_of[conts[k]] if exp_of is not None else ref.touching(things, conts[k], w)
        bad = None
        if not (0 <= l <= n and 0 <= r <= n):
            bad = "touch.index_out_of_range"
        elif exact:
            if t:
                if exp_of is None:
                    assert t == list(range(t[0], t[-1] + 1)), "oracle: touching set not contiguous"
                if l != t[0] or r != t[-1] + 1:
                    bad = "touch.window"
                stats.add("touching")
            else:
                if l < r:
                    bad = "touch.window_not_empty"
                stats.add("none_touching")
        elif t:
            if not (l <= t[0] and t[-1] < r):  # t is ascending
                bad = "touch.window_misses_touching_thing"
            elif (l, r) != (t[0], t[-1] + 1) or len(t) != r - l:
                stats.add("weak_window_wider_than_touching")
        elif l < r:
            stats.add("weak_window_wider_than_touching")
        if bad:
            raise Violation(bad, repr((
                "container", k, conts[k], "window", w, "got_window", (l, r), "touching_things",
                t[:3] + ["..."] + t[-3:] if len(t) > 6 else t, "things_near_window_edges", near(things, l), near(things, r),
                "n_things", n, "ctx", ctx, "things", things if n <= 8 else "...",
                "containers", conts if len(conts) <= 8 else "...")))
    sp = as_list(strax.split_touching_windows(x, c, window=w))
    check(len(sp) == len(conts), "touch.split_length", (ctx, things, conts, w, len(sp)))
    for k, (l, r) in enumerate(rows):
        g = np.asarray(sp[k])
        if not same_bytes(g, x[l:r]):
            raise Violation("touch.split_rows", repr((
                "container", k, conts[k], "window", w, "window_indices", (l, r), "got_ids", g["id"].tolist()[:20],
                "n_things", n, "ctx", ctx, "things", things if n <= 8 else "...",
                "containers", conts if len(conts) <= 8 else "...")))
    return stats


def enum_touch(tier, seed):
    def gen_all():
        for t in space("T_BOTH"):
            for w in WINDOWS:
                for e in ENCS:
                    yield dict(things=lists(t), w=w, enc=[e, e])

    return sliced(gen_all(), tier, seed, 64)


def enum_touch_weak(tier, seed):
    def gen_all():
        for t in space("T_UNS"):
            for w in WINDOWS:
                for e in ENCS:
                    yield dict(things=lists(t), w=w, enc=[e, e], maxc=3 if len(t) <= 3 else 2)

    return sliced(gen_all(), tier, seed, 48)


def _run_exh_touch(d, exact):
    things = [tuple(r) for r in d["things"]]
    w, (et, ec) = d["w"], d["enc"]
    maxc = d.get("maxc", 3)
    x = mk(things, et)
    ends = [b for _, b in things]
    assert (ends == sorted(ends)) == exact
    exp_of = {iv: ref.touching(things, iv, w) for iv in IVS}
    if exact:
        assert all(t == list(range(t[0], t[-1] + 1)) for t in exp_of.values() if t), "oracle: touching set not contiguous"
    stats = set()
    for conts, c in zip(space("C_ANY"), space_arrays("C_ANY", ec)):
        if len(conts) > maxc:
            continue
        stats |= check_touching(x, c, things, conts, w, exact, d["enc"], exp_of)
    classes = [f"n_things_{len(things)}", f"enc_{et}_{ec}", f"window_{w}"] + sorted(stats)
    n_in, n_nt = inner_nt(things, "C_ANY", always=w != 0, maxlen=maxc)
    return dict(nt=True, classes=classes, inner_evaluations=n_in, inner_nontrivial=n_nt)


@quiet
def run_exh_touch(d):
    return _run_exh_touch(d, True)


@quiet
def run_exh_touch_weak(d):
    return _run_exh_touch(d, False)


# ------------------------------------------------------------------------------------------------
# time to previous / next interval
# ------------------------------------------------------------------------------------------------
def check_prevnext(x, iv, things, ints, ctx):
    ep, en = ref.time_to_prev_next(things, ints)
    gp, gn = strax.abs_time_to_prev_next_interval(x, iv)
    gp, gn = int_list(gp), int_list(gn)
    if gp != ep:
        raise Violation("prevnext.time_to_prev", mismatch(gp, ep, things, ints, ctx))
    if gn != en:
        raise Violation("prevnext.time_to_next", mismatch(gn, en, things, ints, ctx))
    return ep, en


def enum_prevnext(tier, seed):
    for t in space("T_DISJ"):
        for et in ENCS:
            for ei in ENCS:
                yield dict(things=lists(t), enc=[et, ei])


@quiet
def run_exh_prevnext(d):
    things = [tuple(r) for r in d["things"]]
    et, ei = d["enc"]
    x = mk(things, et)
    for ints, iv in zip(space("T_DISJ"), space_arrays("T_DISJ", ei)):
        check_prevnext(x, iv, things, list(ints), d["enc"])
    n_in, n_nt = inner_nt(things, "T_DISJ")
    return dict(nt=True, classes=[f"n_things_{len(things)}", f"enc_{et}_{ei}"], inner_evaluations=n_in,
                inner_nontrivial=n_nt)


# ------------------------------------------------------------------------------------------------
# gaps and breaks: diff, _find_break_i, from_break
# ------------------------------------------------------------------------------------------------
def check_gaps(x, rows, safe_breaks, not_befores, ctx):
    """rows: scaled (start, end) of x.  Returns class names."""
    n = len(rows)
    classes = set()
    exp = ref.diff(rows)
    got = strax.diff(x)
    check(got.dtype == np.int64 and got.tolist() == exp, "gaps.diff", (ctx, rows, got.tolist(), exp))
    if any(g == 0 for g in exp):
        classes.add("zero_gap")
    if any(g < 0 for g in exp):
        classes.add("overlap")
    times = [a for a, _ in rows]
    for sb in safe_breaks:
        for nb in not_befores:
            try:
                want = ref.find_break_i(rows, sb, nb)
            except ref.NoBreak:
                want = None
            info = (ctx, "rows", rows, "safe_break", sb, "not_before", nb, "want", want)
            if n >= 2:
                try:
                    gi = int(G._find_break_i(x, sb, nb))
                except strax.NoBreakFound:
                    gi = None
                check(gi == want, "gaps.find_break_i", info + ("got", gi))
            for left in (True, False):
                try:
                    part, bt = strax.from_break(x, sb, nb, left, False)
                except strax.NoBreakFound:
                    check(n == 1 or (n >= 2 and want is None), "gaps.from_break_no_break_found", info + (left,))
                    classes.add("no_break")
                    continue
                except NotImplementedError:
                    check(n == 0, "gaps.from_break_not_implemented", info + (left,))
                    classes.add("empty_raises")
                    continue
                check(n >= 2 and want is not None, "gaps.from_break_found_nonexistent_break", info + (left, int(bt)))
                check(int(bt) == times[want], "gaps.from_break_time", info + (left, int(bt)))
                wpart = x[:want] if left else x[want:]
                check(same_bytes(np.asarray(part), wpart), "gaps.from_break_rows",
                      info + (left, np.asarray(part)["id"].tolist()))
                classes.add("break_found")
                if want > 1:
                    classes.add("break_not_at_first_gap")
    try:
        strax.from_break(x, 1, 0, True, True)
    except NotImplementedError:
        pass
    else:
        raise Violation("gaps.from_break_tolerant_accepted", repr((ctx, rows)))
    return classes


def enum_gaps(tier, seed):
    for t in space("T_ANY"):
        for e in ENCS:
            yield dict(rows=lists(t), enc=e)


@quiet
def run_exh_gaps(d):
    rows = [tuple(r) for r in d["rows"]]
    x = mk(rows, d["enc"])
    classes = check_gaps(x, rows, (0, 1, 2, 3, 5), (0, 2, 4, 7), d["enc"])
    lens = {b - a for a, b in rows}
    classes.add("equal_length" if len(lens) <= 1 else "mixed_length")
    classes.add(f"n_{len(rows)}")
    nt = bool(classes & {"zero_gap", "overlap"}) or len(rows) == 0
    return dict(nt=nt, classes=sorted(classes), inner_evaluations=5 * 4 * 2, inner_nontrivial=5 * 4 * 2 * nt)


# ------------------------------------------------------------------------------------------------
# overlap_indices
# ------------------------------------------------------------------------------------------------
def enum_overlap(tier, seed):
    for a1 in range(-3, 4):
        for n_a in range(-2, 7):
            yield dict(a1=a1, n_a=n_a)


def run_exh_overlap(d):
    a1, n_a = d["a1"], d["n_a"]
    classes = set()
    for b1 in range(-5, 10):
        for n_b in range(-2, 7):
            info = (a1, n_a, b1, n_b)
            try:
                got = strax.overlap_indices(a1, n_a, b1, n_b)
            except ValueError:
                check(n_a < 0 or n_b < 0, "overlap_indices.rejected_valid", info)
                classes.add("negative_length_rejected")
                continue
            check(n_a >= 0 and n_b >= 0, "overlap_indices.accepted_negative_length", info)
            want = ref.overlap_indices(a1, n_a, b1, n_b)
            got = tuple(tuple(int(v) for v in p) for p in got)
            check(got == want, "overlap_indices.value", info + (got, want))
            if want == ((0, 0), (0, 0)):
                classes.add("adjacent_no_overlap" if (a1 + n_a == b1 or b1 + n_b == a1) and n_a and n_b
                            else "no_overlap")
            else:
                classes.add("overlap")
    return dict(nt=True, classes=sorted(classes), inner_evaluations=15 * 9, inner_nontrivial=15 * 9)


# ------------------------------------------------------------------------------------------------
# sorting
# ------------------------------------------------------------------------------------------------
def sort_array(times, chans, enc, tie_field_desc=True):
    """Rows in the given (arbitrary) order; `id` records the input position.  Fields other than the key are
    filled so that rows tying on the key differ and come in *descending* order of those fields."""
    n = len(times)
    extra = [("channel", np.int16)] if chans is not None else []
    x = np.zeros(n, gen.time_dtype(enc, extra + [("id", np.int64)]))
    x["time"] = times
    dur = (np.arange(n, 0, -1) if tie_field_desc else np.ones(n)).astype(np.int64)
    if enc == "endtime":
        x["endtime"] = x["time"] + dur
    else:
        x["dt"] = 1
        x["length"] = dur
    if chans is not None:
        x["channel"] = chans
    x["id"] = np.arange(n)
    return x


F52 = 2 ** 52
KEYMAX = 2 ** 63 - 1 - 10


def check_sort_by_time(x, times, chans, ctx):
    order = ref.sort_order(times, chans)
    before = x.copy()
    got = strax.sort_by_time(x)
    again = strax.sort_by_time(x)
    check(same_bytes(x, before), "sort.input_modified", ctx)
    check(same_bytes(np.asarray(got), np.asarray(again)), "sort.not_deterministic", ctx)
    want = x[order] if len(x) else x
    if not same_bytes(np.asarray(got), want):
        # diagnosis from the inputs alone (no strax code involved): which documented-domain corner is this?
        tags = ""
        n = len(times)
        tmin, tmax = min(times), max(times)
        if chans is None and tmax - tmin >= F52:
            alt = sorted(range(n), key=lambda i: float(times[i] - tmin) * 2.0 + 1.0)
            if same_bytes(np.asarray(got), x[alt]):
                tags += "[no-channel-field][time-span>=2**52][output==stable-sort-by-float64-key]"
        if chans is not None:
            cmin = min(chans)
            sh = [c - min(cmin, 0) for c in chans]
            m = max(sh) + 1
            keys = [(t - tmin) * m + c for t, c in zip(times, sh)]
            if max(keys) > 2 ** 63 - 1:
                wrapped = [((k + 2 ** 63) % 2 ** 64) - 2 ** 63 for k in keys]  # int64 wrap-around
                alt = sorted(range(n), key=lambda i: wrapped[i])
                if same_bytes(np.asarray(got), x[alt]):
                    tags += "[single-sort-key-overflows-int64][output==stable-sort-by-wrapped-key]"
            if (tmax - tmin) > KEYMAX / (max(sh) + 1):
                names = [nm for nm in x.dtype.names if nm not in ("time", "channel")]
                alt = sorted(range(n), key=lambda i: (times[i], chans[i]) + tuple(int(x[nm][i]) for nm in names))
                if same_bytes(np.asarray(got), x[alt]):
                    tags += "[time-span-too-large-for-single-key][output==sorted-by-all-fields-not-stable]"
        raise Violation("sort.sort_by_time_order",
                        tags + repr((ctx, "got_ids", np.asarray(got)["id"].tolist()[:40], "want_ids", order[:40])))
    return order


@signature("F1730_sort_by_time_float_key_without_channel")
def _sig_f1730(sub, desc, bucket, message):
    """sort_by_time on an array without `channel` field builds a float64 key ((t - tmin) * 2.0 + 1.0); for time
    spans >= 2**52 ns neighbouring times collide and the output is not sorted by time."""
    return (sub == "rnd_sort" and bucket == "clause:sort.sort_by_time_order" and desc.get("chan") is None
            and desc.get("wide") is not None
            and "[no-channel-field][time-span>=2**52][output==stable-sort-by-float64-key]" in message)


@signature("F1731_sort_by_time_fallback_not_stable")
def _sig_f1731(sub, desc, bucket, message):
    """sort_by_time falls back to np.sort(order=('time','channel')) when the time span is too large for the
    single integer key; numpy then breaks ties by the remaining fields instead of input order."""
    return (sub == "rnd_sort" and bucket == "clause:sort.sort_by_time_order" and desc.get("chan") is not None
            and desc.get("wide") is not None
            and "[time-span-too-large-for-single-key][output==sorted-by-all-fields-not-stable]" in message)


@signature("F1732_sort_by_time_key_overflow_at_guard_boundary")
def _sig_f1732(sub, desc, bucket, message):
    """sort_by_time decides between the single-integer-key path and the fallback with a float64 comparison
    ((2**63 - 11) / (max channel + 1)); spans just above the exact limit are rounded away, take the fast path and
    the key (t - tmin) * (max channel + 1) + channel overflows int64."""
    return (sub == "rnd_sort" and bucket == "clause:sort.sort_by_time_order" and desc.get("chan") is not None
            and desc.get("wide") is not None
            and "[single-sort-key-overflows-int64][output==stable-sort-by-wrapped-key]" in message)


def enum_sort(tier, seed):
    import itertools
    for n in range(0, 5):
        for times in itertools.product((0, 1, 2), repeat=n):
            yield dict(times=list(times), chans=None, enc="endtime")
            if n == 0:
                yield dict(times=[], chans=[], enc="dt")
                continue
            for chans in itertools.product((0, 1, 2), repeat=n):
                for off in (0, -1):
                    yield dict(times=list(times), chans=[c + off for c in chans], enc="dt" if off else "endtime")


@quiet
def run_exh_sort(d):
    times, chans = d["times"], d["chans"]
    x = sort_array(times, chans, d["enc"])
    check_sort_by_time(x, times, chans, d)
    keys = list(zip(times, chans)) if chans is not None else list(times)
    classes = [f"n_{len(times)}", "channel" if chans is not None else "no_channel"]
    tie = len(set(keys)) < len(keys)
    if tie:
        classes.append("key_tie")
    if chans is not None and min(chans, default=0) < 0:
        classes.append("negative_channel")
    if keys == sorted(keys):
        classes.append("already_sorted")
    return dict(nt=tie or not times, classes=classes)


@st.composite
def st_rnd_sort(draw):
    n = draw(st.one_of(st.integers(0, 5), st.integers(6, 40), st.integers(41, 200)))
    chan = draw(st.sampled_from([None, None, dict(max=2, neg=False), dict(max=20, neg=True),
                                 dict(max=3000, neg=False), dict(max=3000, neg=True)]))
    return dict(seed=draw(st.integers(0, 2 ** 31 - 1)), n=n, tspan=draw(st.sampled_from([1, 3, 10, 1000])),
                chan=chan, enc=draw(st.sampled_from(ENCS)), unit=draw(st.sampled_from(gen.UNITS)),
                base=draw(st.sampled_from([0, 1_700_000_000_000_000_000])),
                wide=draw(st.sampled_from([None, None, None, None, 2 ** 52, 2 ** 55, 2 ** 60])))


@quiet
def run_rnd_sort(d):
    if "times" in d:  # explicit form (minimised replays): rows given literally
        times, chans, n = list(d["times"]), d["chans"], len(d["times"])
    else:
        rng = np.random.RandomState(d["seed"])
        n = d["n"]
        times = d["base"] + d["unit"] * rng.randint(0, d["tspan"], size=n).astype(np.int64)
        if d["wide"] is not None and n:
            far = rng.random_sample(n) < 0.5
            times = times + far * (d["wide"] + rng.randint(0, 4, size=n))
        times = [int(t) for t in times]
        chans = None
        if d["chan"] is not None:
            lo = -1 if d["chan"]["neg"] else 0
            pool = rng.randint(lo, d["chan"]["max"] + 1, size=3)  # few distinct channels -> ties on (time, channel)
            chans = [int(c) for c in pool[rng.randint(0, 3, size=n)]]
    x = sort_array(times, chans, d["enc"])
    check_sort_by_time(x, times, chans, d)
    keys = list(zip(times, chans)) if chans is not None else list(times)
    tie = len(set(keys)) < len(keys)
    classes = ["n_0" if n == 0 else "n_1_5" if n <= 5 else "n_6_40" if n <= 40 else "n_41_200",
               "channel" if chans is not None else "no_channel", "wide_span" if d["wide"] else "narrow_span"]
    if tie:
        classes.append("key_tie")
    if chans is not None and n:
        sh = max(chans) - min(min(chans), 0)
        if max(times) - min(times) > KEYMAX / (sh + 1):
            classes.append("fallback_sort_path")
    return dict(nt=tie or n == 0, classes=classes)


PLAIN_DTYPES = ["i8", "i4", "u1", "f8", "i2"]


@st.composite
def st_sort_kinds(draw):
    vals = draw(st.lists(st.integers(-4, 9), max_size=draw(st.sampled_from([3, 12, 60]))))
    return dict(values=vals, dtype=draw(st.sampled_from(PLAIN_DTYPES)),
                kind=draw(st.sampled_from(["quicksort", "heapsort", "stable", "timsort"])),
                structured=draw(st.booleans()), jit=draw(st.sampled_from([False, False, False, True])))


def run_sort_kinds(d):
    vals = list(d["values"])
    dt = np.dtype(d["dtype"])
    if dt.kind == "u":
        vals = [v + 4 for v in vals]
    if dt.kind == "f":
        vals = [v / 2.0 for v in vals]
    arr = np.array(vals, dtype=dt)
    before = arr.copy()
    classes = [f"dtype_{d['dtype']}", f"kind_{d['kind']}"]
    gi = strax.stable_argsort(arr)
    check(int_list(gi) == ref.argsort_stable(vals), "sortkinds.stable_argsort",
          (d, np.asarray(gi).tolist(), ref.argsort_stable(vals)))
    check(np.asarray(strax.stable_argsort(arr)).tolist() == np.asarray(gi).tolist(), "sortkinds.argsort_not_deterministic", d)
    gs = strax.stable_sort(arr)
    check(gs.dtype == dt and gs.tolist() == sorted(vals), "sortkinds.stable_sort", (d, gs.tolist()))
    check(same_bytes(strax.stable_sort(arr), gs), "sortkinds.sort_not_deterministic", d)
    check(same_bytes(arr, before), "sortkinds.input_modified", d)
    check(int_list(strax.stable_argsort(arr, kind="mergesort")) == ref.argsort_stable(vals)
          and strax.stable_sort(arr, kind="mergesort").tolist() == sorted(vals), "sortkinds.mergesort_explicit", d)
    for fn, name in ((strax.stable_sort, "stable_sort"), (strax.stable_argsort, "stable_argsort")):
        try:
            fn(arr, kind=d["kind"])
        except SortingError:
            pass
        else:
            raise Violation("sortkinds.unstable_kind_accepted", repr((name, d)))
    if d["structured"]:
        # keys (time, channel) from the value list; the only other field is the running id, so numpy's
        # tie-break by remaining fields coincides with input order
        times = [abs(int(v * 2 if dt.kind == "f" else v)) % 3 for v in vals]
        chans = [abs(int(v * 2 if dt.kind == "f" else v)) % 2 for v in vals]
        s = np.zeros(len(vals), [("time", np.int64), ("channel", np.int16), ("id", np.int64)])
        s["time"], s["channel"], s["id"] = times, chans, np.arange(len(vals))
        g = strax.stable_sort(s, order=("time", "channel"))
        check(same_bytes(g, s[ref.sort_order(times, chans)] if len(s) else s), "sortkinds.stable_sort_order",
              (d, g["id"].tolist()))
        classes.append("structured_order")
    if d["jit"]:
        # the enforcement must also hold inside jitted code (sort_by_time's fast path goes through it)
        x = sort_array([int(abs(v * 2)) for v in vals] or [0], [0] * max(1, len(vals)), "endtime")
        ch = x["channel"].copy()
        try:
            G._sort_by_time_and_channel(x, ch, ch.max() + 1, d["kind"])
        except SortingError:
            pass
        else:
            raise Violation("sortkinds.unstable_kind_accepted_in_jit", repr(d))
        classes.append("jit_path")
    tie = len(set(vals)) < len(vals)
    if tie:
        classes.append("ties")
    return dict(nt=tie or not vals, classes=classes)


# ------------------------------------------------------------------------------------------------
# random larger arrays
# ------------------------------------------------------------------------------------------------
def build_rows(rng, n, mode, max_len, max_gap, p_zero, t0=3, equal_len=False):
    """n rows sorted by start.  disjoint: start >= previous end; overlap: start >= previous start;
    sorted_end: overlap with non-decreasing ends."""
    rows = []
    if n == 0:
        return rows
    lens = rng.randint(1, max_len + 1, size=n)
    if equal_len:
        lens[:] = lens[0]
    gaps = rng.randint(1, max_gap + 1, size=n) * (rng.random_sample(n) >= p_zero)
    for k in range(n):
        if mode == "disjoint":
            a = (rows[-1][1] if rows else t0) + int(gaps[k])
        else:
            a = (rows[-1][0] if rows else t0) + int(gaps[k])
        b = a + int(lens[k])
        if mode == "sorted_end" and rows:
            b = max(b, rows[-1][1])
        rows.append((a, b))
    return rows


def derive_disjoint(rng, things, ncont):
    """Non-overlapping containers hugging groups of consecutive things (edges on/next to thing edges)."""
    conts = []
    i = 0
    n = len(things)
    while i < n and len(conts) < ncont:
        i += int(rng.randint(0, 3))
        if i >= n:
            break
        g = int(rng.randint(1, 6))
        grp = things[i: i + g]
        i += g
        s = grp[0][0] - int(rng.choice([0, 0, 0, 1, 2, -1]))
        e = max(b for _, b in grp) + int(rng.choice([0, 0, 0, 1, -1]))
        if conts:
            s = max(s, conts[-1][1])
        s = max(s, 0)
        if e <= s:
            e = s + 1
        conts.append((s, e))
    return conts


def derive_any(rng, things, ncont):
    """Containers (may overlap) with edges on/next to thing edges, sorted by start only."""
    n = len(things)
    conts = []
    for _ in range(ncont if n else 0):
        i = int(rng.randint(0, n))
        j = min(n - 1, i + int(rng.randint(0, 4)))
        s = max(0, things[i][int(rng.randint(0, 2))] + int(rng.choice([0, 0, 1, -1, 2])))
        e = max(s + 1, things[j][1] + int(rng.choice([0, 0, 1, -1, -2])))
        conts.append((s, e))
    order = sorted(range(len(conts)), key=lambda k: conts[k][0])  # stable: ends stay in random order
    return [conts[k] for k in order]


def derive_between(rng, things):
    """Non-overlapping intervals in and around the gaps between non-overlapping things."""
    out = []
    n = len(things)
    for k in range(n + 1):
        lo = things[k - 1][1] if k > 0 else max(0, things[0][0] - 4)
        hi = things[k][0] if k < n else lo + 4
        for _ in range(int(rng.randint(0, 3))):
            s = lo + int(rng.choice([0, 0, 0, 1, -1]))
            e = int(rng.choice([hi, hi, s + 1, hi + 1, hi - 1]))
            if out:
                s = max(s, out[-1][1])
            s = max(s, 0)
            if e <= s:
                e = s + 1
            out.append((s, e))
            lo = e
    return out


SIZES = st.one_of(st.integers(0, 4), st.integers(5, 30), st.integers(31, 200))
DT_UNITS = {1: [1], 7: [1, 7], 500: [1, 2, 10, 500], 1000: [1, 2, 10, 1000], 1001: [1, 7]}


@st.composite
def st_common(draw, things_modes, cont_kinds):
    unit = draw(st.sampled_from(gen.UNITS))
    if unit in DT_UNITS:
        et, ec = draw(st.sampled_from(ENCS)), draw(st.sampled_from(ENCS))
        dts = [draw(st.sampled_from(DT_UNITS[unit])), draw(st.sampled_from(DT_UNITS[unit]))]
    else:
        et = ec = "endtime"
        dts = [1, 1]
    max_len = draw(st.sampled_from([1, 2, 4, 9]))
    return dict(seed=draw(st.integers(0, 2 ** 31 - 1)), n=draw(SIZES), mode=draw(st.sampled_from(things_modes)),
                max_len=max_len, max_gap=draw(st.sampled_from([1, 3, 8])),
                p_zero=draw(st.sampled_from([0.0, 0.3, 0.7])), nc=draw(st.one_of(st.integers(0, 3), st.integers(4, 40))),
                ckind=draw(st.sampled_from(cont_kinds)), clen=draw(st.sampled_from([1, 2, 5])),
                unit=unit, enc=[et, ec], dt=dts, base=draw(st.sampled_from([0, 0, 1_700_000_000_000_000_000])))


def size_class(n, what):
    return f"{what}_0" if n == 0 else f"{what}_1_4" if n <= 4 else f"{what}_5_30" if n <= 30 else f"{what}_31_200"


def coincide(a_rows, b_rows):
    pts = {p for r in b_rows for p in r}
    return any(p in pts for r in a_rows for p in r)


def build_pair(d, rng, things, conts):
    u, base = d["unit"], d["base"]
    x = mk(things, d["enc"][0], u, d["dt"][0], base)
    c = mk(conts, d["enc"][1], u, d["dt"][1], base)
    st_, sc = scaled(things, u, base), scaled(conts, u, base)
    assert gen.endtimes(x).tolist() == [b for _, b in st_] and gen.endtimes(c).tolist() == [b for _, b in sc]
    return x, c, st_, sc


def base_classes(d, things, conts):
    return [size_class(len(things), "things"), size_class(len(conts), "containers"), "mode_" + d["mode"],
            "containers_" + d["ckind"], f"enc_{d['enc'][0]}_{d['enc'][1]}", f"unit_{d['unit']}",
            "epoch_base" if d["base"] else "zero_base"]


def st_rnd_contain():
    return st_common(["disjoint", "overlap", "sorted_end"], ["derived", "independent"])


@quiet
def run_rnd_contain(d):
    rng = np.random.RandomState(d["seed"])
    things = build_rows(rng, d["n"], d["mode"], d["max_len"], d["max_gap"], d["p_zero"])
    if d["ckind"] == "derived":
        conts = derive_disjoint(rng, things, d["nc"])
    else:
        conts = build_rows(rng, d["nc"], "disjoint", d["max_len"] * d["clen"], d["max_gap"] * d["clen"], d["p_zero"], t0=0)
    x, c, st_, sc = build_pair(d, rng, things, conts)
    exp = check_containment(x, c, st_, sc, d)
    classes = base_classes(d, things, conts)
    ncont = sum(1 for k in exp if k >= 0)
    classes.append("none_contained" if ncont == 0 else "all_contained" if ncont == len(exp) else "some_contained")
    co = coincide(things, conts)
    if co:
        classes.append("shared_endpoint")
    if any(conts[k + 1][0] == conts[k][1] for k in range(len(conts) - 1)):
        classes.append("containers_touch")
    return dict(nt=co or not things or not conts, classes=classes)


@st.composite
def st_rnd_touch(draw):
    d = draw(st_common(["disjoint", "overlap", "sorted_end", "sorted_end"], ["derived", "independent"]))
    d["cmode"] = draw(st.sampled_from(["disjoint", "overlap", "sorted_end"]))
    d["wk"] = draw(st.sampled_from(WINDOWS))
    d["wd"] = draw(st.sampled_from([0, 0, 1, -1])) if d["unit"] > 1 else 0
    return d


@quiet
def run_rnd_touch(d):
    rng = np.random.RandomState(d["seed"])
    things = build_rows(rng, d["n"], d["mode"], d["max_len"], d["max_gap"], d["p_zero"])
    if d["ckind"] == "derived":
        conts = derive_any(rng, things, d["nc"])
    else:
        conts = build_rows(rng, d["nc"], d["cmode"], d["max_len"] * d["clen"], d["max_gap"] * d["clen"], d["p_zero"], t0=0)
    x, c, st_, sc = build_pair(d, rng, things, conts)
    w = d["wk"] * d["unit"] + d["wd"]
    ends = [b for _, b in things]
    exact = ends == sorted(ends)
    stats = check_touching(x, c, st_, sc, w, exact, d)
    classes = base_classes(d, things, conts) + sorted(stats) + [f"window_{d['wk']}", "exact" if exact else "weak"]
    if d["wd"]:
        classes.append("window_off_grid")
    co = coincide(things, conts)
    if co:
        classes.append("shared_endpoint")
    cends = [b for _, b in conts]
    if cends != sorted(cends):
        classes.append("container_endtimes_unsorted")
    return dict(nt=co or not things or not conts or w != 0, classes=classes)


def st_rnd_prevnext():
    return st_common(["disjoint"], ["derived", "independent"])


@quiet
def run_rnd_prevnext(d):
    rng = np.random.RandomState(d["seed"])
    things = build_rows(rng, d["n"], "disjoint", d["max_len"], d["max_gap"], d["p_zero"])
    if d["ckind"] == "derived" and things:
        ints = derive_between(rng, things)[: max(d["nc"], 1) * 3]
    else:
        ints = build_rows(rng, d["nc"], "disjoint", d["max_len"] * d["clen"], d["max_gap"] * d["clen"], d["p_zero"], t0=0)
    x, iv, st_, si = build_pair(d, rng, things, ints)
    ep, en = check_prevnext(x, iv, st_, si, d)
    classes = base_classes(d, things, ints)
    if 0 in ep:
        classes.append("prev_abuts")
    if 0 in en:
        classes.append("next_abuts")
    if -1 in ep or -1 in en:
        classes.append("no_neighbour")
    if any(s < b and a < e for a, b in things for s, e in ints):
        classes.append("interval_overlaps_thing")
    co = coincide(things, ints)
    return dict(nt=co or not things or not ints, classes=classes)


@st.composite
def st_rnd_gaps(draw):
    d = draw(st_common(["disjoint", "overlap", "sorted_end"], ["none"]))
    d["equal_len"] = draw(st.booleans())
    d["sb"] = draw(st.lists(st.integers(0, 12), min_size=1, max_size=3))
    d["nb"] = draw(st.sampled_from([0, 0, 5, 40, 400]))
    return d


@quiet
def run_rnd_gaps(d):
    rng = np.random.RandomState(d["seed"])
    rows = build_rows(rng, d["n"], d["mode"], d["max_len"], d["max_gap"], d["p_zero"], equal_len=d["equal_len"])
    u, base = d["unit"], d["base"]
    x = mk(rows, d["enc"][0], u, d["dt"][0], base)
    srows = scaled(rows, u, base)
    assert gen.endtimes(x).tolist() == [b for _, b in srows]
    sbs = sorted({s * u for s in d["sb"]} | {d["sb"][0] * u + 1})
    nbs = sorted({0, base + d["nb"] * u})
    classes = check_gaps(x, srows, sbs, nbs, d)
    classes |= {size_class(len(rows), "rows"), "mode_" + d["mode"], f"unit_{u}", f"enc_{d['enc'][0]}",
                "equal_length" if len({b - a for a, b in rows}) <= 1 else "mixed_length"}
    return dict(nt=bool(classes & {"zero_gap", "overlap"}) or not rows, classes=sorted(classes))


# ------------------------------------------------------------------------------------------------
# unsorted input is rejected
# ------------------------------------------------------------------------------------------------
@st.composite
def st_unsorted(draw):
    d = draw(st_common(["disjoint", "overlap", "sorted_end"], ["independent"]))
    d["n"] = draw(st.one_of(st.integers(2, 6), st.integers(7, 200)))
    d["nc"] = draw(st.one_of(st.integers(2, 5), st.integers(6, 40)))
    d["which"] = draw(st.sampled_from(["things", "containers", "both"]))
    d["adjacent"] = draw(st.booleans())
    d["pos"] = draw(st.sampled_from(["first", "last", "any"]))
    d["wk"] = draw(st.sampled_from(WINDOWS))
    return d


def _unsort(rng, x, adjacent, pos):
    """Swap two rows with different start times -> `time` has a descent."""
    n = len(x)
    if pos == "first":
        i = 0
    elif pos == "last":
        i = n - 2
    else:
        i = int(rng.randint(0, n - 1))
    j = i + 1 if (adjacent or pos == "last") else int(rng.randint(i + 1, n))
    y = x.copy()
    y[i], y[j] = x[j], x[i]
    assert y["time"][i] > y["time"][j]
    return y


@quiet
def run_unsorted(d):
    rng = np.random.RandomState(d["seed"])
    # strictly increasing starts (gap >= 1 everywhere) so that any swap creates a descent
    things = build_rows(rng, d["n"], d["mode"], d["max_len"], d["max_gap"], 0.0)
    conts = build_rows(rng, d["nc"], "disjoint", d["max_len"] * d["clen"], d["max_gap"] * d["clen"], 0.0, t0=0)
    x, c, _, _ = build_pair(d, rng, things, conts)
    if d["which"] in ("things", "both"):
        x = _unsort(rng, x, d["adjacent"], d["pos"])
    if d["which"] in ("containers", "both"):
        c = _unsort(rng, c, d["adjacent"], d["pos"])
    w = d["wk"] * d["unit"]
    calls = [("fully_contained_in", lambda: strax.fully_contained_in(x, c)),
             ("split_by_containment", lambda: strax.split_by_containment(x, c)),
             ("touching_windows", lambda: strax.touching_windows(x, c, window=w)),
             ("split_touching_windows", lambda: strax.split_touching_windows(x, c, window=w)),
             ("abs_time_to_prev_next_interval", lambda: strax.abs_time_to_prev_next_interval(x, c))]
    for name, fn in calls:
        try:
            fn()
        except (ValueError, AssertionError):
            continue
        raise Violation("unsorted.accepted:" + name, repr(d))
    return dict(nt=True, classes=["unsorted_" + d["which"], "adjacent_swap" if d["adjacent"] else "distant_swap",
                                  "descent_" + d["pos"], size_class(len(things), "things"),
                                  f"enc_{d['enc'][0]}_{d['enc'][1]}"])


# ------------------------------------------------------------------------------------------------
# fixed hand-computed examples: an anchor for the reference model that shares nothing with it (literal expected
# values), for every primitive and every encoding pair; it also passes once through every other sub-check's code
# path.  Committed as regression replay replay/C17-fixed-examples.json.
# ------------------------------------------------------------------------------------------------
def enum_fixed(tier, seed):
    yield dict(examples="all")


def _ids(a):
    return np.asarray(a)["id"].tolist()


@quiet
def run_fixed(d):
    T = [(0, 2), (2, 5), (4, 6), (6, 8)]  # sorted by start and end, disjoint
    C = [(0, 2), (2, 6), (7, 9)]  # disjoint containers
    n = 0
    for et in ENCS:
        for ec in ENCS:
            x, c = mk(T, et), mk(C, ec)
            e0 = mk([], et), mk([], ec)
            check(int_list(strax.fully_contained_in(x, c)) == [0, 1, 1, -1], "fixed.fully_contained_in", (et, ec))
            check([_ids(g) for g in as_list(strax.split_by_containment(x, c))] == [[0], [1, 2], []],
                  "fixed.split_by_containment", (et, ec))
            check(len(as_list(strax.split_by_containment(x, e0[1]))) == 0 and
                  [_ids(g) for g in as_list(strax.split_by_containment(e0[0], c))] == [[], [], []]
                  and int_list(strax.fully_contained_in(x, e0[1])) == [-1] * 4
                  and int_list(strax.fully_contained_in(e0[0], c)) == [], "fixed.containment_empty", (et, ec))
            for w, want in ((0, [[0, 1], [1, 3], [3, 4]]), (1, [[0, 2], [0, 4], [3, 4]])):
                check(int_list(strax.touching_windows(x, c, window=w)) == want, "fixed.touching_windows", (et, ec, w))
                check([_ids(g) for g in strax.split_touching_windows(x, c, window=w)]
                      == [list(range(a, b)) for a, b in want], "fixed.split_touching_windows", (et, ec, w))
            got = int_list(strax.touching_windows(x, c, window=-1))
            check(got[:2] == [[0, 1], [1, 3]] and got[2][0] >= got[2][1], "fixed.touching_windows_negative", (et, ec))
            check(int_list(strax.touching_windows(x, e0[1])) == [] and
                  int_list(strax.touching_windows(e0[0], c)) == [[0, 0]] * 3 and
                  [_ids(g) for g in strax.split_touching_windows(e0[0], c)] == [[], [], []], "fixed.touching_empty",
                  (et, ec))
            # one-row inputs (their field views are contiguous: a different numba signature)
            x1, c1 = mk(T[:1], et), mk(C[:1], ec)
            check(int_list(strax.touching_windows(x, c1)) == [[0, 1]] and int_list(strax.touching_windows(x1, c1)) == [[0, 1]],
                  "fixed.touching_windows_one_container", (et, ec))
            got = int_list(strax.touching_windows(x1, c))
            check(got[0] == [0, 1] and got[1][0] >= got[1][1] and got[2][0] >= got[2][1],
                  "fixed.touching_windows_one_thing", (et, ec, got))
            # unsorted endtimes: thing 0 spans everything
            u = mk([(0, 10), (1, 2), (3, 4)], et)
            l, r = int_list(strax.touching_windows(u, mk([(5, 6)], ec)))[0]
            check(l == 0 and r >= 1, "fixed.touching_unsorted_endtimes", (et, ec, l, r))
            t3, i3 = mk([(1, 3), (6, 8), (20, 21)], et), mk([(3, 5), (9, 12)], ec)
            p, q = strax.abs_time_to_prev_next_interval(t3, i3)
            check(int_list(p) == [-1, 1, 8] and int_list(q) == [0, 1, -1], "fixed.prev_next", (et, ec))
            p, q = strax.abs_time_to_prev_next_interval(t3, e0[1])
            check(int_list(p) == [-1] * 3 and int_list(q) == [-1] * 3, "fixed.prev_next_empty", (et, ec))
            for bad_t, bad_c in ((x[::-1].copy(), c), (x, c[::-1].copy())):
                for fn in (strax.fully_contained_in, strax.split_by_containment, strax.touching_windows,
                           strax.split_touching_windows, strax.abs_time_to_prev_next_interval):
                    try:
                        fn(bad_t, bad_c)
                    except ValueError:
                        continue
                    raise Violation("fixed.unsorted_accepted", repr((fn.__name__, et, ec)))
            n += 1
        x = mk(T, et)
        check(strax.diff(x).tolist() == [0, -1, 0] and strax.diff(x[:1]).tolist() == [] and strax.diff(x[:0]).tolist() == [],
              "fixed.diff", et)
        y = mk([(0, 10), (1, 2), (12, 13)], et)
        check(strax.diff(y).tolist() == [-9, 2], "fixed.diff_running_max", et)
        check(int(G._find_break_i(y, 2, 0)) == 2 and int(G._find_break_i(y, 1, 11)) == 2, "fixed.find_break_i", et)
        for args in ((3, 0), (2, 11)):
            try:
                G._find_break_i(y, *args)
            except strax.NoBreakFound:
                continue
            raise Violation("fixed.find_break_i_no_break", repr((et, args)))
        part, bt = strax.from_break(y, 2, 0, True, False)
        check(_ids(part) == [0, 1] and int(bt) == 12, "fixed.from_break_left", et)
        part, bt = strax.from_break(y, 2, 0, False, False)
        check(_ids(part) == [2] and int(bt) == 12, "fixed.from_break_right", et)
        for arr, args, exc in ((y[:1], (2, 0, True, False), strax.NoBreakFound), (y[:0], (2, 0, True, False), NotImplementedError),
                               (y, (2, 0, True, True), NotImplementedError), (y, (3, 0, False, False), strax.NoBreakFound)):
            try:
                strax.from_break(arr, *args)
            except exc:
                continue
            raise Violation("fixed.from_break_exception", repr((et, args)))
        xs = sort_array([5, 3, 5, 3], [1, 2, 0, 2], et)
        check(_ids(strax.sort_by_time(xs)) == [1, 3, 2, 0], "fixed.sort_by_time_channel", et)
        xs = sort_array([5, 3, 5, 3], [1, -1, 0, -1], et)
        check(_ids(strax.sort_by_time(xs)) == [1, 3, 2, 0], "fixed.sort_by_time_negative_channel", et)
        xs = sort_array([5, 3, 5, 3], None, et)
        check(_ids(strax.sort_by_time(xs)) == [1, 3, 0, 2] and len(strax.sort_by_time(xs[:0])) == 0,
              "fixed.sort_by_time", et)
        xs = sort_array([5, 3, 5, 3], [1, 2, 0, 2], et)
        ch = xs["channel"].copy()
        try:
            G._sort_by_time_and_channel(xs, ch, ch.max() + 1, "quicksort")
        except SortingError:
            pass
        else:
            raise Violation("fixed.unstable_kind_accepted_in_jit", et)
    check(tuple(map(tuple, strax.overlap_indices(0, 5, 3, 4))) == ((3, 5), (0, 2))
          and tuple(map(tuple, strax.overlap_indices(0, 3, 3, 4))) == ((0, 0), (0, 0))
          and tuple(map(tuple, strax.overlap_indices(4, 2, 0, 9))) == ((0, 2), (4, 6)), "fixed.overlap_indices")
    a = np.array([2, 1, 2, 1])
    check(strax.stable_argsort(a).tolist() == [1, 3, 0, 2] and strax.stable_sort(a).tolist() == [1, 1, 2, 2],
          "fixed.stable_sort")
    for k in ("quicksort", "heapsort"):
        for fn in (strax.stable_sort, strax.stable_argsort):
            try:
                fn(a, kind=k)
            except SortingError:
                continue
            raise Violation("fixed.unstable_kind_accepted", k)
    # one pass through every other sub-check's code path per encoding pair (same oracles as there)
    for et in ENCS:
        for ec in ENCS:
            common = dict(seed=5, n=6, mode="overlap", max_len=4, max_gap=3, p_zero=0.3, nc=3, ckind="derived", clen=2,
                          unit=1, enc=[et, ec], dt=[1, 1], base=0)
            run_exh_contain.__wrapped__(dict(things=[[0, 2], [1, 4], [1, 3]], enc=[et, ec]))
            _run_exh_touch(dict(things=[[0, 2], [1, 4]], w=1, enc=[et, ec]), True)
            _run_exh_touch(dict(things=[[0, 4], [1, 2]], w=-1, enc=[et, ec], maxc=2), False)
            run_exh_prevnext.__wrapped__(dict(things=[[0, 2], [2, 3], [5, 6]], enc=[et, ec]))
            run_rnd_contain.__wrapped__(dict(common))
            run_rnd_touch.__wrapped__(dict(common, cmode="overlap", wk=1, wd=0))
            run_rnd_touch.__wrapped__(dict(common, mode="sorted_end", ckind="independent", cmode="overlap", wk=-1, wd=0))
            run_rnd_prevnext.__wrapped__(dict(common, mode="disjoint"))
            run_rnd_gaps.__wrapped__(dict(common, equal_len=False, sb=[1, 3], nb=5))
            run_unsorted.__wrapped__(dict(common, which="both", adjacent=True, pos="any", wk=0))
        run_exh_gaps.__wrapped__(dict(rows=[[0, 3], [1, 2], [4, 6]], enc=et))
    run_exh_sort.__wrapped__(dict(times=[1, 0, 1], chans=[0, 1, 0], enc="endtime"))
    run_exh_sort.__wrapped__(dict(times=[1, 0, 1], chans=[0, -1, 0], enc="dt"))
    run_exh_sort.__wrapped__(dict(times=[1, 0, 1], chans=None, enc="endtime"))
    for e in ENCS:
        for chan in (None, dict(max=20, neg=True)):
            run_rnd_sort.__wrapped__(dict(seed=3, n=9, tspan=3, chan=chan, enc=e, unit=7, base=0, wide=None))
    run_sort_kinds(dict(values=[3, 1, 3, 0], dtype="i8", kind="heapsort", structured=True, jit=True))
    run_exh_overlap(dict(a1=0, n_a=3))
    return dict(nt=True, classes=["fixed_examples"], inner_evaluations=n, inner_nontrivial=n)


SUBCHECKS = [
    SubCheck("fixed", run_fixed, enumerate=enum_fixed, exhaustive_in=("quick", "thorough")),
    SubCheck("exh_contain", run_exh_contain, enumerate=enum_contain, exhaustive_in=("thorough",)),
    SubCheck("exh_touch", run_exh_touch, enumerate=enum_touch, exhaustive_in=("thorough",)),
    SubCheck("exh_touch_weak", run_exh_touch_weak, enumerate=enum_touch_weak, exhaustive_in=("thorough",)),
    SubCheck("exh_prevnext", run_exh_prevnext, enumerate=enum_prevnext, exhaustive_in=("quick", "thorough")),
    SubCheck("exh_gaps", run_exh_gaps, enumerate=enum_gaps, exhaustive_in=("quick", "thorough")),
    SubCheck("exh_overlap", run_exh_overlap, enumerate=enum_overlap, exhaustive_in=("quick", "thorough")),
    SubCheck("exh_sort", run_exh_sort, enumerate=enum_sort, exhaustive_in=("quick", "thorough")),
    SubCheck("rnd_contain", run_rnd_contain, strategy=st_rnd_contain, quick=800, thorough=25000),
    SubCheck("rnd_touch", run_rnd_touch, strategy=st_rnd_touch, quick=1000, thorough=30000),
    SubCheck("rnd_prevnext", run_rnd_prevnext, strategy=st_rnd_prevnext, quick=600, thorough=15000),
    SubCheck("rnd_gaps", run_rnd_gaps, strategy=st_rnd_gaps, quick=600, thorough=15000),
    SubCheck("rnd_sort", run_rnd_sort, strategy=st_rnd_sort, quick=800, thorough=20000),
    SubCheck("unsorted", run_unsorted, strategy=st_unsorted, quick=600, thorough=10000),
    SubCheck("sort_kinds", run_sort_kinds, strategy=st_sort_kinds, quick=600, thorough=10000),
]
