"""C12 - outputs that violate a plugin's declared contract are rejected, not stored.

A healthy generated graph in which the result of the k-th compute call of one plugin (for down-chunking plugins
the k-th yielded chunk) is replaced, right where strax receives it, by a contract-violating one.  Oracle:
 * the request raises (observed through get_iter: chunks delivered before the exception must be a prefix of the
   whole-run reference - the offending output or anything derived from it is never handed out);
 * afterwards a fresh Context reports the offending data type and all its descendants as not stored, and whatever
   it does report stored loads completely and equals the reference;
 * the harness asserts that the violation was really injected (otherwise the case is vacuous, counted).
"""
import itertools
import os
import shutil

import numpy as np
from hypothesis import strategies as st

import strax
from vf import graphs
from vf.core import SubCheck, Violation
from vf.findings import signature
from vf.props import c01

PROPERTY_ID = "C12"
LEVEL = "exploration"
ENV = {"NUMBA_DISABLE_JIT": "1"}
RULE = (
    "A case = C01-style graph/chunking/configuration + (offending plugin, call index k, violation kind, target = "
    "the offending type or a descendant).  The full matrix violation kind x plugin kind (sub-check matrix: every "
    "applicable cell x position first/middle/last x both processors, on generated graphs that contain the plugin "
    "kind) plus random cases.  Non-trivial = the offending chunk is not the first one or the plugin kind is not "
    "'ordinary'.  distinct = distinct descriptor hashes."
)
ASSUMPTIONS = [
    "violation kinds: dtype_bare (array of another dtype), dtype_chunk_data (Chunk declaring the right dtype but "
    "carrying data of another), dtype_chunk_both (Chunk declaring and carrying another dtype), row_early / row_late "
    "(a row starting before / ending after the carrying chunk, within the last 500 rows), wrong_label (Chunk labelled "
    "with another data type; for multi-output plugins also label_sibling_chunk: an output wrapped in a Chunk that "
    "carries the right data but the label of the sibling output, and dtype_sibling_chunk: a Chunk labelled right but "
    "declaring and carrying the sibling's dtype), gap / overlap (chunk-producing plugins: start shifted), non_dict / missing_output "
    "(multi-output)",
    "threaded runs under the controlled scheduler; numba helpers un-jitted",
]
_COUNTER = itertools.count()

KINDS = ["dtype_bare", "dtype_chunk_data", "dtype_chunk_both", "row_early", "row_late", "row_late_inner", "wrong_label", "gap",
         "overlap", "non_dict", "missing_output", "dtype_sibling_chunk", "label_sibling_chunk"]
PLUGIN_KIND = {"source": "source", "rowwise": "ordinary", "filter": "ordinary", "merge": "ordinary",
               "multi": "multi", "loop": "loop", "overlap": "overlap", "downchunk": "downchunk", "exhaust": "ordinary"}
APPLICABLE = {
    "source": ["dtype_chunk_data", "dtype_chunk_both", "row_early", "row_late", "row_late_inner", "wrong_label", "gap", "overlap"],
    "ordinary": ["dtype_bare", "dtype_chunk_data", "dtype_chunk_both", "row_early", "row_late", "row_late_inner",
                 "wrong_label"],
    "multi": ["dtype_bare", "dtype_sibling_chunk", "label_sibling_chunk", "row_early", "row_late", "row_late_inner", "non_dict",
              "missing_output"],
    "loop": ["dtype_bare", "dtype_chunk_data", "dtype_chunk_both", "row_late", "wrong_label"],
    "overlap": ["dtype_bare", "dtype_chunk_both", "row_late", "wrong_label"],
    "downchunk": ["dtype_chunk_data", "dtype_chunk_both", "row_late", "wrong_label", "gap"],
}
BAD = np.dtype(strax.time_fields + [("zz", np.float32)])


def bad_like(arr):
    x = np.zeros(len(arr), BAD)
    x["time"] = arr["time"]
    x["endtime"] = strax.endtime(arr)
    return x


def make_mutation(kind):
    def as_chunk(plugin, res, start, end, data=None, dtype=None, data_type=None, s=None, e=None):
        if isinstance(res, strax.Chunk):
            start, end, base = res.start, res.end, res
            d0 = res.data
            dt0 = res.data_type
        else:
            d0 = res
            dt0 = plugin.provides[0]
        return strax.Chunk(start=start if s is None else s, end=end if e is None else e,
                           data=d0 if data is None else data, data_type=data_type or dt0,
                           data_kind=plugin.data_kind_for(dt0), dtype=dtype or plugin.dtype_for(dt0),
                           run_id=plugin._run_id)

    def arr_of(res):
        return res.data if isinstance(res, strax.Chunk) else res

    def rebuild(plugin, res, arr):
        """same container type as res, with other data"""
        if isinstance(res, strax.Chunk):
            return strax.Chunk(start=res.start, end=res.end, data=arr, data_type=res.data_type,
                               data_kind=res.data_kind, dtype=res.dtype, run_id=res.run_id)
        return arr

    def fn(plugin, res, start, end):
        if kind in ("non_dict", "missing_output"):
            if kind == "non_dict":
                return list(res.values())[0]
            r = dict(res)
            r.pop(sorted(r)[-1])
            return r
        if isinstance(res, dict):  # multi-output: violate the last output
            key = sorted(res)[-1]
            r = dict(res)
            a = res[key]
            if kind == "dtype_bare":
                r[key] = bad_like(a)
            elif kind == "dtype_sibling_chunk":
                # a self-consistent Chunk labelled as this output but declaring and carrying the dtype of the
                # sibling output (outputs mixed up)
                sib = res[sorted(res)[0]]
                r[key] = strax.Chunk(start=start, end=end, data=sib.copy(), dtype=sib.dtype, data_type=key,
                                     data_kind=plugin.data_kind_for(key), run_id=plugin._run_id)
            elif kind == "label_sibling_chunk":
                # a self-consistent Chunk with the right data and dtype for this output, but labelled with the data type
                # of the SIBLING output (the copy-and-paste slip self.chunk(..., data_type=<other output>))
                sib_name = sorted(res)[0]
                r[key] = strax.Chunk(start=start, end=end, data=a.copy(), dtype=a.dtype, data_type=sib_name,
                                     data_kind=plugin.data_kind_for(key), run_id=plugin._run_id)
            elif kind == "row_early":
                b = a.copy()
                if len(b):
                    b["time"][0] = start - 5
                else:
                    graphs.RUNTIME[plugin._vf_token]["noop"] = True  # no row that could start early
                r[key] = b
            elif kind in ("row_late", "row_late_inner"):
                b = a.copy()
                i = _late_index(b, kind)
                if i is None:
                    graphs.RUNTIME[plugin._vf_token]["noop"] = True
                else:
                    b["endtime"][i] = end + 5
                r[key] = b
            return r
        a = arr_of(res)
        if kind == "dtype_bare":
            return bad_like(a)
        if kind == "dtype_chunk_data":
            return as_chunk(plugin, res, start, end, data=bad_like(a))
        if kind == "dtype_chunk_both":
            return as_chunk(plugin, res, start, end, data=bad_like(a), dtype=BAD)
        if kind == "wrong_label":
            return as_chunk(plugin, res, start, end, data_type="not_" + plugin.provides[0])
        if kind == "row_early":
            b = a.copy()
            if len(b):
                b["time"][0] = (res.start if isinstance(res, strax.Chunk) else start) - 5
            else:
                graphs.RUNTIME[plugin._vf_token]["noop"] = True  # no row that could start early
            return rebuild(plugin, res, b)
        if kind in ("row_late", "row_late_inner"):
            b = a.copy()
            i = _late_index(b, kind)
            if i is None:
                graphs.RUNTIME[plugin._vf_token]["noop"] = True
            else:
                b["endtime"][i] = (res.end if isinstance(res, strax.Chunk) else end) + 5
            return rebuild(plugin, res, b)
        if kind == "gap":
            first = graphs.RUNTIME[plugin._vf_token]["mutate"]["k"] == 0  # a run may start anywhere: no gap
            if first or res.end <= res.start + 1 or (len(res.data) and res.data["time"].min() < res.start + 1):
                graphs.RUNTIME[plugin._vf_token]["noop"] = True  # no room to open a gap without another violation
                return res
            return as_chunk(plugin, res, start, end, s=res.start + 1)
        if kind == "overlap":
            if res.start == 0:
                graphs.RUNTIME[plugin._vf_token]["noop"] = True
                return res
            return as_chunk(plugin, res, start, end, s=res.start - 1)
        raise ValueError(kind)

    return fn


@st.composite
def st_case(draw, want_pk=None, want_kind=None, threaded=None, position=None):
    for _ in range(8):
        d = draw(c01.st_case(threaded=threaded))
        spec = d["spec"]
        cand = [n for n in spec["nodes"] if PLUGIN_KIND[n["op"]] == want_pk] if want_pk else list(spec["nodes"])
        if cand:
            break
    else:
        # construct the wanted plugin kind on top of source s0
        op = {"ordinary": "rowwise", "multi": "multi", "loop": "loop", "overlap": "overlap",
              "downchunk": "downchunk", "source": "source"}[want_pk]
        extra = dict(name="w0", op=op, deps=["s0"], save_when=draw(st.integers(0, 3)), rechunk_on_save=False,
                     target_rows=None)
        if op == "rowwise":
            extra.update(mul=1, add=1)
        if op == "multi":
            extra.update(outs=["w0x", "w0y"])
        if op == "overlap":
            extra.update(w=[1, 1], scalar_window=False)
            spec["nodes"][0]["overlapping"] = False
            d["rows"]["s0"] = [[0, 1], [2, 4], [5, 6]]
            d["t1"] = max(d["t1"], 6)
            d["cutsA"]["s0"], d["cutsB"]["s0"] = [2], [2, 4]
        if op == "downchunk":
            extra.update(piece=1)
        if op == "loop":
            if len(d["rows"]) < 2:
                spec["nodes"].insert(1, dict(name="s1", op="source", overlapping=False, save_when=0,
                                             rechunk_on_save=False, target_rows=None))
                d["rows"]["s1"] = [[0, 1], [3, 4]]
                d["t1"] = max(d["t1"], 4)
                d["cutsA"]["s1"], d["cutsB"]["s1"] = [], [2]
            spec["nodes"][0]["overlapping"] = False
            d["rows"]["s0"] = [[0, 2], [3, 5]]
            d["t1"] = max(d["t1"], 5)
            d["cutsA"]["s0"], d["cutsB"]["s0"] = [], [2]
            extra.update(deps=["s0", "s1"])
        spec["nodes"].append(extra)
        cand = [extra] if op != "source" else [spec["nodes"][0]]
    node = draw(st.sampled_from(cand))
    pk = PLUGIN_KIND[node["op"]]
    kind = want_kind or draw(st.sampled_from(APPLICABLE[pk]))
    outs = graphs.outputs_of(node)
    # target: the offending type or one of its descendants
    types = graphs.all_types(spec)
    desc_of = [t for t in types if set(outs) & (graphs.ancestors(spec, t) | {t})]
    d["target"] = draw(st.sampled_from(desc_of))
    if kind in ("gap", "overlap"):
        d["target"] = outs[0]  # the property speaks of gaps / overlaps in a *requested target*
        if draw(st.booleans()):
            # make room for the violation: two chunks, the second one with a row-free stretch at its start
            for s in d["rows"]:
                d["rows"][s] = [[0, 1], [4, 5]]
                d["cutsA"][s], d["cutsB"][s] = [], [2]
            d["t1"] = 7
            position = "last"
    d["stored"] = [t for t in d["stored"] if t not in desc_of]
    d["offender"] = node["name"]
    d["violation"] = kind
    d["position"] = position or draw(st.sampled_from(["first", "middle", "last"]))
    if graphs.has_lag(spec) or graphs.has_diamond(spec):
        d["cfg"]["max_messages"] = sum(len(c) + 1 for c in d["cutsA"].values()) + \
            sum(len(c) + 1 for c in d["cutsB"].values()) + 3
    return d


def run_case(d):
    spec, unit = d["spec"], d["unit"]
    token = f"c12-{os.getpid()}-{next(_COUNTER)}"
    rt = graphs.new_runtime(token)
    path = c01.scratch_dir("c12")
    try:
        classes = graphs.build_classes(spec, token, unit)
        ref = graphs.evaluate(spec, d["rows"], unit)
        prov = graphs.providers(spec)
        node = [n for n in spec["nodes"] if n["name"] == d["offender"]][0]
        pk = PLUGIN_KIND[node["op"]]
        outs = graphs.outputs_of(node)
        tainted = {t for t in graphs.all_types(spec) if set(outs) & (graphs.ancestors(spec, t) | {t})}
        c01.prestore(d, classes, rt, path)
        c01.set_sources(rt, d, "cutsB")
        # dry run to learn the number of calls / yielded chunks of the offender (on a copy of the storage)
        dry = path + "-dry"
        if os.path.isdir(path):
            shutil.copytree(path, dry)
        try:
            ctx = c01.make_context(classes, [strax.DataDirectory(dry)], d["cfg"])
            rt["calls"].clear()
            chunks, exc, S = c01.run_pipeline(ctx, d["target"], dict(d["cfg"], processor="single_thread"), d["policy"])
        finally:
            shutil.rmtree(dry, ignore_errors=True)
        if exc is not None:
            raise Violation("dry.raised:" + type(exc).__name__, f"{exc!r} {d}") from exc
        ncalls = rt["calls"][d["offender"]]
        if node["op"] == "downchunk":
            ncalls = len(ref[node["name"]]) + 1  # upper bound; position resolved below by trying
        if ncalls == 0:
            return dict(nt=False, classes=["vacuous:offender_not_run"])
        k = {"first": 0, "middle": ncalls // 2, "last": ncalls - 1}[d["position"]]
        if node["op"] == "downchunk":
            k = 0 if d["position"] == "first" else 1
        if d["violation"] == "overlap" and k == 0:
            k = min(1, ncalls - 1)
        rt["mutate"] = dict(name=d["offender"], k=k, fn=make_mutation(d["violation"]))
        rt["mutated"] = False
        rt["noop"] = False
        rt["calls"].clear()
        rt.pop("yielded", None)
        ctx = c01.make_context(classes, [strax.DataDirectory(path)], d["cfg"])
        got = []
        threaded = d["cfg"]["processor"] == "threaded_mailbox"

        def job():
            for c in ctx.get_iter("r", d["target"], processor=d["cfg"]["processor"],
                                  max_workers=d["cfg"].get("max_workers", 1), progress_bar=False):
                got.append(c)
            return len(got)

        if threaded:
            from vf.sched import policies
            from vf.sched.scheduler import Scheduler
            S = Scheduler(policies.make_policy(d["policy"]), max_steps=400000)
            with S.installed():
                _, exc = S.run(job)
        else:
            S = None
            try:
                job()
                exc = None
            except Exception as e:  # noqa
                exc = e
        rt["mutate"] = None
        tag = f"[plugin={pk}][violation={d['violation']}][{d['cfg']['processor']}][k={k}/{ncalls}]"
        cell = f"{pk}:{d['violation']}"
        if not rt.get("mutated"):
            if exc is not None:
                raise Violation("novio.raised:" + type(exc).__name__, f"{tag} {exc!r} {d}") from exc
            return dict(nt=False, classes=["vacuous:not_injected"])
        # was the mutation a real violation?  (empty outputs cannot carry early/late rows; a shifted start may
        # coincide with the previous end only if nothing changed)
        offender_rows = sum(len(ref[o]) for o in outs)
        if rt.get("noop"):
            # the mutation point reported that nothing could be violated there (an output without rows cannot carry
            # an early / late row; no room for a gap / overlap): only then is "no exception" the right outcome
            if exc is not None:
                raise Violation("novio.raised:" + type(exc).__name__, f"{tag} {exc!r} {d}") from exc
            return dict(nt=False, classes=["vacuous:violation_not_possible_here"])
        if S is not None:
            if S.deadlock or S.timeouts_fired:
                raise Violation("violation.hang", f"{tag} {S.deadlock} {S.timeout_events} {d}")
        # ---- (1) must raise; what was delivered must be clean
        delivered = []
        clean = True
        for c in got:
            try:
                rows = graphs.rows_of(c.data)
            except Exception:  # noqa - wrong dtype handed out
                clean = False
                break
            delivered += rows
        if clean and delivered != ref[d["target"]][:len(delivered)]:
            clean = False
        if not clean:
            raise Violation("violation.offending_output_handed_to_user", f"{tag} delivered {delivered[:8]} "
                            f"dtypes {[str(c.data.dtype) for c in got][:3]} exc {exc!r} {d}")
        if exc is None:
            raise Violation("violation.accepted_no_exception", f"{tag} request completed normally {d}")
        # ---- (2) storage
        ctx2 = c01.make_context(classes, [strax.DataDirectory(path)])
        t1u = d["t1"] * unit
        for t in graphs.all_types(spec):
            try:
                stored = ctx2.is_stored("r", t)
            except Exception as e:  # noqa
                raise Violation("violation.is_stored_raised", f"{tag} {t}: {e!r} {d}") from e
            if not stored:
                continue
            if t in tainted:
                raise Violation("violation.offending_data_left_stored", f"{tag} {t} reported stored {d}")
            try:
                ch = list(ctx2.get_iter("r", t, processor="single_thread", progress_bar=False))
                c01.check_result(ch, ref[t], 0, t1u, d, "x")
            except Violation as v:
                raise Violation("violation.other_stored_data_wrong", f"{tag} {t}: {v} {d}")
            except Exception as e:  # noqa
                raise Violation("violation.other_stored_data_unloadable", f"{tag} {t}: {e!r} {d}") from e
        cl = ["cell:" + cell, "pos:" + d["position"], d["cfg"]["processor"], "exc:" + type(exc).__name__]
        if graphs.save_when_of(node, outs[-1]) > 0:
            cl.append("offender_saved")
        return dict(nt=(k > 0 or pk != "ordinary"), classes=cl)
    finally:
        graphs.drop_runtime(token)
        shutil.rmtree(path, ignore_errors=True)
        shutil.rmtree(path + "-dry", ignore_errors=True)


def _late_index(b, kind):
    """Index of the row that is made to end after its chunk: the last row (row_late), or a row that is NOT the last
    one (row_late_inner: a long row followed by shorter ones - rows are sorted by time, not by endtime); None when the
    output has too few rows for that."""
    if kind == "row_late":
        return len(b) - 1 if len(b) else None
    return 0 if len(b) >= 2 else None


def st_matrix_cell(pk, kind):
    return lambda: st_case(want_pk=pk, want_kind=kind)


CELLS = [(pk, kind) for pk, kinds_ in APPLICABLE.items() for kind in kinds_]


@st.composite
def st_matrix(draw):
    pk, kind = draw(st.sampled_from(CELLS))
    return draw(st_case(want_pk=pk, want_kind=kind))


SUBCHECKS = [
    SubCheck("matrix", run_case, strategy=st_matrix, quick=2400, thorough=60000,
             required_classes=tuple("cell:%s:%s" % c for c in CELLS)),
    SubCheck("random", run_case, strategy=st_case, quick=1200, thorough=40000),
]
