"""C03 - saving then loading returns the same rows, ranges and consistent metadata.

Drives the file-system backend directly: FileSytemBackend().saver(dirname, metadata).save_from(generator,
rechunk, executor) and backend.loader(dirname, executor=...).

Oracles (all independent of strax):
 * the written stream itself (rows, chunk ranges) is the reference for the round trip;
 * the files on disk are decoded by this module with the compression *libraries* (bz2, zstandard, lz4.frame,
   blosc), never through strax.io, and re-interpreted with the dtype the case was built from;
 * admissible(s) = "no row has time < s < endtime" (vf.gen) for the boundary rule;
 * every metadata clause is recomputed from the decoded rows / os.path.getsize / os.listdir.
"""
import bz2
import json
import os
import shutil
import tempfile
from ast import literal_eval
from concurrent.futures import ThreadPoolExecutor

import blosc
import lz4.frame
import numpy as np
import zstandard
from hypothesis import strategies as st

import strax
from vf import gen
from vf.core import SubCheck, Violation
from vf.findings import signature

PROPERTY_ID = "C03"
LEVEL = "exploration"
RULE = (
    "Descriptors (structured dtype = time fields in either endtime encoding + 0-4 extra scalar / array-valued / "
    "titled fields placed before or after the time fields, random payload bytes incl. NaN patterns; rows on an "
    "integer grid scaled by a unit and shifted, overlapping allowed; a law-abiding chunking drawn from the "
    "admissible cut times incl. duplicates (zero-duration chunks) and cuts in row-free regions (empty chunks); "
    "compressor; rechunk on/off with a target of 1..8 rows; serial or thread-pool saving and loading) are drawn "
    "from a Hypothesis strategy (sub-checks roundtrip, load_rechunk) or enumerated over the full configuration "
    "grid compressor x rechunk x save executor x load executor x encoding x target on fixed layouts (grid).  "
    "A case is non-trivial when the stream has >=2 chunks and (an empty chunk, or an array-valued field, or the "
    "rechunker really changed the layout, or a non-default compressor).  distinct = distinct descriptor hashes."
)
ASSUMPTIONS = [
    "inputs obey the laws of chunking: rows sorted by time, positive duration, wholly inside one chunk; chunks "
    "contiguous; zero-duration chunks are empty",
    "dtypes are packed (no alignment padding), carry time+endtime or time+length+dt, extra fields of kinds "
    "i1..i8,u1..u8,f4,f8,bool, optionally array-valued (1-D/2-D) and/or titled; bool payloads are 0/1; bool "
    "fields are scalar (numba cannot type records with nested boolean arrays, so no strax numba function takes them)",
    "cases that rechunk (on save or on load) draw the extra fields from a fixed menu of 8 field sets x 2 encodings "
    "(numba compiles per dtype); cases that do not rechunk draw free-form dtypes",
    "rechunk targets are >= one row (smaller targets are documented to raise 'Target size is too small')",
    "only the FileSytemBackend is driven; the chunk source handed to save_from is a generator; real threads "
    "(ThreadPoolExecutor) are used, schedules are not controlled",
    "filesize is compared with os.path.getsize only where the saver recorded it (the executor path does not)",
]

SCALARS = ["i1", "i2", "i4", "i8", "u1", "u2", "u4", "u8", "f4", "f8", "?"]
SHAPES = [[], [], [], [1], [3], [2, 2], [4, 1]]
COMPRESSORS = ["blosc", "zstd", "lz4", "bz2"]
UNITS = [1, 7, 500, 1000, 1001, 250_000_000]
DATA_TYPE = "x"
LINEAGE_HASH = "abcdefghij"
RUN_ID = "r"


def check(cond, clause, detail=""):
    if not cond:
        raise Violation(clause, detail if isinstance(detail, str) else repr(detail))


def scratch():
    p = os.environ.get("VERIF_SCRATCH") or "/verif/.work/tmp"
    os.makedirs(p, exist_ok=True)
    return p


# ------------------------------------------------------------------------------------------------
# generator
# ------------------------------------------------------------------------------------------------
# Every code path that rechunks goes through numba (strax.diff, split_array), which compiles once per distinct
# dtype (~0.7 s).  Cases that rechunk therefore draw their extra fields from this fixed menu (x 2 encodings);
# cases that do not rechunk never reach numba and draw free-form dtypes.
FIELD_MENU = [
    dict(fields=[], nlead=0),
    dict(fields=[dict(t="i2", shape=[3], title=False)], nlead=0),
    dict(fields=[dict(t="f4", shape=[], title=True)], nlead=0),
    dict(fields=[dict(t="u1", shape=[2, 2], title=True), dict(t="?", shape=[], title=False)], nlead=1),
    dict(fields=[dict(t="f8", shape=[], title=False), dict(t="i8", shape=[1], title=False)], nlead=2),
    dict(fields=[dict(t="i1", shape=[], title=False), dict(t="u2", shape=[], title=False),
                 dict(t="u4", shape=[4, 1], title=False), dict(t="u8", shape=[], title=True)], nlead=0),
    dict(fields=[dict(t="i4", shape=[3], title=True), dict(t="f4", shape=[2, 2], title=False)], nlead=1),
    dict(fields=[dict(t="?", shape=[], title=False), dict(t="f8", shape=[3], title=True)], nlead=0),
]


@st.composite
def st_fields(draw):
    n = draw(st.integers(0, 4))
    out = []
    for _ in range(n):
        t = draw(st.sampled_from(SCALARS))
        # numba cannot type a record with a nested *boolean* array ('Boolean' object has no attribute
        # 'bitwidth'), so no strax numba function accepts such data: bool fields are scalar only
        shape = draw(st.sampled_from(SHAPES)) if t != "?" else []
        out.append(dict(t=t, shape=shape, title=draw(st.sampled_from([False, False, True]))))
    return out


@st.composite
def st_case(draw, load_rechunk=False):
    rechunk = draw(st.booleans())
    if rechunk or load_rechunk:
        m = draw(st.sampled_from(FIELD_MENU))
        fields, nlead, time_titles = m["fields"], m["nlead"], True
    else:
        fields = draw(st_fields())
        nlead = draw(st.integers(0, len(fields))) if draw(st.booleans()) else 0
        time_titles = draw(st.sampled_from([True, True, False]))
    max_n = draw(st.sampled_from([5, 12, 12, 40]))
    # rechunk-on-load only splits at gaps > 1000 ns: favour disjoint rows and units that make such gaps
    rows = draw(gen.st_rows(max_n=max_n, mode=draw(st.sampled_from(["disjoint", "disjoint", "any"]))
                            if load_rechunk else "any"))
    tail = draw(st.integers(0, 2))
    t1 = max([b for _, b in rows] + [0]) + tail
    cuts = draw(gen.st_cuts(rows, 0, t1))
    units = UNITS + [1000, 1001, 250_000_000] if load_rechunk else UNITS
    d = dict(
        enc=draw(st.sampled_from(["endtime", "dt"])),
        time_titles=time_titles,
        fields=fields,
        nlead=nlead,
        unit=draw(st.sampled_from(units)),
        dtk=draw(st.integers(0, 3)),
        shift=draw(st.sampled_from([0, 0, 1, 3])),
        rows=rows, t1=t1, cuts=cuts,
        comp=draw(st.sampled_from(COMPRESSORS)),
        rechunk=rechunk,
        tgt_rows=draw(st.integers(1, 8)),
        pool_s=draw(st.booleans()),
        pool_l=draw(st.booleans()),
        workers=draw(st.integers(1, 3)),
        seed=draw(st.integers(0, 2 ** 31 - 1)),
    )
    if load_rechunk:
        d["src_rows"] = draw(st.sampled_from([1, 1, 2, 3, 6]))
    return d


def st_roundtrip():
    return st_case()


def st_load_rechunk():
    return st_case(load_rechunk=True)


GRID_LAYOUTS = [
    # rows (grid), t1, cuts : gaps of 2-3 grid steps (> 1000 ns at unit 1000), one empty chunk, one zero-duration
    dict(rows=[[0, 1], [1, 2], [4, 5], [5, 7], [10, 11], [13, 14]], t1=16, cuts=[2, 3, 3, 9, 15]),
    # overlapping rows, last row of a chunk is not the one ending last
    dict(rows=[[1, 5], [1, 2], [2, 3], [8, 12], [9, 10], [15, 16]], t1=16, cuts=[7, 13]),
    # no rows at all, three chunks
    dict(rows=[], t1=3, cuts=[1, 1]),
]


def enum_grid(tier, seed):
    fields = [dict(t="i2", shape=[3], title=False), dict(t="f4", shape=[], title=True),
              dict(t="u1", shape=[2, 2], title=False), dict(t="?", shape=[], title=False)]
    k = 0
    for lay in GRID_LAYOUTS:
        for comp in COMPRESSORS:
            for enc in ("endtime", "dt"):
                for rechunk in (False, True):
                    for tgt in ((1, 3) if rechunk else (2,)):
                        for pool_s in (False, True):
                            for pool_l in (False, True):
                                k += 1
                                yield dict(enc=enc, time_titles=True, fields=fields, nlead=1, unit=1000, dtk=k,
                                           shift=k % 3, rows=lay["rows"], t1=lay["t1"], cuts=lay["cuts"],
                                           comp=comp, rechunk=rechunk, tgt_rows=tgt, pool_s=pool_s, pool_l=pool_l,
                                           workers=2, seed=k + 1000 * seed)


# ------------------------------------------------------------------------------------------------
# building the real inputs
# ------------------------------------------------------------------------------------------------
def build_dtype(d):
    def key(title, name):
        return (title, name) if d["time_titles"] else name

    tf = [(key("Start time since unix epoch [ns]", "time"), "<i8")]
    if d["enc"] == "endtime":
        tf.append((key("Exclusive end time since unix epoch [ns]", "endtime"), "<i8"))
    else:
        tf.append((key("Length of the interval in samples", "length"), "<i4"))
        tf.append((key("Width of one sample [ns]", "dt"), "<i2"))
    extras = []
    for i, f in enumerate(d["fields"]):
        name = f"f{i}"
        k = (f"Title of {name}", name) if f["title"] else name
        if f["shape"]:
            extras.append((k, f["t"], tuple(f["shape"])))
        else:
            extras.append((k, f["t"]))
    n = min(d["nlead"], len(extras))
    return np.dtype(extras[:n] + tf + extras[n:])


def build_data(d, dtype):
    rows = d["rows"]
    u = d["unit"]
    sh = d["shift"] * u
    n = len(rows)
    rng = np.random.RandomState(d["seed"])
    if n:
        x = np.frombuffer(rng.bytes(dtype.itemsize * n), dtype=dtype).copy()
    else:
        x = np.zeros(0, dtype)
    for name in dtype.names:
        if dtype[name].base == np.dtype(bool):
            x[name] = (x[name].view(np.uint8) & 1).astype(bool)
    r = np.asarray(rows, dtype=np.int64).reshape(-1, 2)
    x["time"] = r[:, 0] * u + sh
    if d["enc"] == "endtime":
        x["endtime"] = r[:, 1] * u + sh
    else:
        cands = [c for c in (1, 2, 10, u) if u % c == 0 and c < 2 ** 15]
        dt = cands[d["dtk"] % len(cands)]
        x["dt"] = dt
        x["length"] = (r[:, 1] - r[:, 0]) * (u // dt)
    return x


def ref_endtime(x):
    if "endtime" in x.dtype.names:
        return x["endtime"].astype(np.int64)
    return x["time"].astype(np.int64) + x["length"].astype(np.int64) * x["dt"].astype(np.int64)


def same_bytes(a, b):
    """Bit-exact comparison of two structured arrays: same dtype (incl. titles), same bytes per field."""
    if a.dtype != b.dtype or a.dtype.names != b.dtype.names or len(a) != len(b):
        return False
    for n in a.dtype.names:
        if np.ascontiguousarray(a[n]).tobytes() != np.ascontiguousarray(b[n]).tobytes():
            return False
    return True


def decode_file(comp, path):
    """The bytes a file holds, decoded with the compression library named by `comp` (not via strax.io)."""
    with open(path, "rb") as f:
        raw = f.read()
    if comp == "bz2":
        return bz2.decompress(raw)
    if comp == "zstd":
        return zstandard.ZstdDecompressor().decompressobj().decompress(raw)
    if comp == "lz4":
        return lz4.frame.decompress(raw)
    if comp == "blosc":
        return blosc.decompress(raw)
    raise AssertionError(comp)


class Case:
    """Everything built from a descriptor: dtype, whole-run data, written chunks, scaled rows."""

    def __init__(self, d):
        self.d = d
        self.dtype = build_dtype(d)
        self.data = build_data(d, self.dtype)
        u, sh = d["unit"], d["shift"] * d["unit"]
        self.t0 = sh
        self.t1 = d["t1"] * u + sh
        self.srows = [(a * u + sh, b * u + sh) for a, b in d["rows"]]
        # a target of k.5 rows: immune to float rounding of (k * itemsize / 1e6) * 1e6
        self.target_mb = (d["tgt_rows"] + 0.5) * self.dtype.itemsize / 1e6
        self.written = []  # (start, end, first row index, n rows)
        for a, b, idx in gen.partition(d["rows"], 0, d["t1"], d["cuts"]):
            self.written.append((a * u + sh, b * u + sh, idx[0] if idx else 0, len(idx)))

    def chunks(self):
        for s, e, i0, n in self.written:
            yield strax.Chunk(start=s, end=e, data=self.data[i0:i0 + n].copy(), data_type=DATA_TYPE,
                              data_kind=DATA_TYPE, dtype=self.dtype, run_id=RUN_ID,
                              target_size_mb=self.target_mb)

    def metadata(self):
        return dict(run_id=RUN_ID, data_type=DATA_TYPE, data_kind=DATA_TYPE, dtype=self.dtype,
                    compressor=self.d["comp"], lineage={DATA_TYPE: ("P", "0", {})}, lineage_hash=LINEAGE_HASH,
                    chunk_target_size_mb=self.target_mb)


# ------------------------------------------------------------------------------------------------
# oracles
# ------------------------------------------------------------------------------------------------
def check_boundaries(c, spans, rechunked, what):
    """spans: [(start, end)] of the stored / loaded chunks."""
    d = c.d
    check(len(spans) >= 1, what + ".no_chunks", d)
    check(spans[0][0] == c.t0 and spans[-1][1] == c.t1, what + ".overall_range",
          (spans[0][0], spans[-1][1], c.t0, c.t1, d))
    for (s, e), (s2, e2) in zip(spans[:-1], spans[1:]):
        check(e == s2, what + ".not_contiguous", (spans, d))
    for s, e in spans:
        check(s <= e, what + ".negative_duration", (spans, d))
    orig = [(s, e) for s, e, _, _ in c.written]
    if not rechunked:
        check(spans == orig, what + ".boundaries_changed_without_rechunk", (spans, orig, d))
    else:
        edges = {x for se in orig for x in se}
        for s, e in spans:
            for x in (s, e):
                check(x in edges or gen.admissible(c.srows, x), what + ".boundary_straddles_row", (x, spans, d))


def check_disk_and_metadata(c, dirname):
    """Returns (chunk entries, decoded rows per entry)."""
    d = c.d
    md_name = f"{DATA_TYPE}-{LINEAGE_HASH}-metadata.json"
    check(os.path.isdir(dirname), "disk.final_directory_missing", d)
    check(not os.path.exists(dirname + "_temp"), "disk.temp_directory_left", d)
    on_disk = set(os.listdir(dirname))
    check(md_name in on_disk, "disk.metadata_file_missing", (sorted(on_disk), d))
    with open(os.path.join(dirname, md_name)) as f:
        meta = json.load(f)

    # ---- top level
    check("writing_ended" in meta and isinstance(meta["writing_ended"], (int, float)), "meta.no_completion_marker", d)
    check("exception" not in meta, "meta.exception_recorded", (meta.get("exception"), d))
    check(meta.get("run_id") == RUN_ID, "meta.run_id", (meta.get("run_id"), d))
    check(meta.get("data_type") == DATA_TYPE and meta.get("data_kind") == DATA_TYPE, "meta.data_type", d)
    check(meta.get("compressor") == d["comp"], "meta.compressor", (meta.get("compressor"), d))
    try:
        md_dtype = np.dtype(literal_eval(meta["dtype"]))
    except Exception as e:  # noqa
        raise Violation("meta.dtype_unreadable", f"{e!r} {d}")
    check(md_dtype == c.dtype, "meta.dtype", (meta["dtype"], str(c.dtype), d))
    entries = meta.get("chunks")
    check(isinstance(entries, list) and len(entries) >= 1, "meta.no_chunks", d)
    check(meta.get("start") == c.t0 and meta.get("end") == c.t1, "meta.overall_start_end",
          (meta.get("start"), meta.get("end"), c.t0, c.t1, d))
    check(meta["start"] == entries[0]["start"] and meta["end"] == entries[-1]["end"],
          "meta.overall_vs_chunks", d)

    # ---- chunk entries: numbering, ranges
    for i, m in enumerate(entries):
        check(m.get("chunk_i") == i, "meta.chunk_i_not_consecutive", ([m.get("chunk_i") for m in entries], d))
        check(m.get("run_id") == RUN_ID, "meta.chunk_run_id", (m, d))
        check(isinstance(m.get("start"), int) and isinstance(m.get("end"), int), "meta.chunk_start_end_type", (m, d))
    check_boundaries(c, [(m["start"], m["end"]) for m in entries], d["rechunk"], "meta")

    # ---- files <-> entries
    named = set()
    rows_per_entry = []
    for i, m in enumerate(entries):
        n = m.get("n")
        check(isinstance(n, int) and n >= 0, "meta.n_invalid", (m, d))
        if n == 0:
            check("filename" not in m, "meta.file_named_for_empty_chunk", (m, d))
            check(m.get("nbytes") == 0, "meta.nbytes", (m, d))
            for k in ("first_time", "last_time", "first_endtime", "last_endtime"):
                check(k not in m, "meta.row_times_for_empty_chunk", (m, d))
            rows_per_entry.append(c.data[:0])
            continue
        check("filename" in m, "meta.no_filename_for_nonempty_chunk", (m, d))
        fn = m["filename"]
        check(fn not in named, "meta.filename_reused", (fn, d))
        named.add(fn)
        path = os.path.join(dirname, fn)
        check(os.path.isfile(path), "disk.named_file_missing", (fn, sorted(on_disk), d))
        try:
            raw = decode_file(d["comp"], path)
        except Exception as e:  # noqa
            raise Violation("disk.file_not_decodable_with_named_compressor", f"{e!r} {fn} {d}")
        check(len(raw) % c.dtype.itemsize == 0, "disk.file_size_not_multiple_of_itemsize", (len(raw), d))
        x = np.frombuffer(raw, dtype=c.dtype)
        rows_per_entry.append(x)
        check(len(x) == n, "meta.n", (n, len(x), m, d))
        check(m.get("nbytes") == len(raw) == n * c.dtype.itemsize, "meta.nbytes", (m.get("nbytes"), len(raw), m, d))
        if "filesize" in m:
            check(m["filesize"] == os.path.getsize(path), "meta.filesize", (m["filesize"], os.path.getsize(path), d))
        et = ref_endtime(x)
        want = dict(first_time=int(x["time"][0]), last_time=int(x["time"][-1]),
                    first_endtime=int(et[0]), last_endtime=int(et[-1]))
        got = {k: m.get(k) for k in want}
        check(got == want, "meta.first_last_row_times", (got, want, d))
        check(int(x["time"].min()) >= m["start"] and int(et.max()) <= m["end"], "meta.rows_outside_chunk_range",
              (m, d))
    check(on_disk - {md_name} == named, "disk.file_set_differs_from_metadata",
          (sorted(on_disk - {md_name}), sorted(named), d))

    # ---- the files together hold exactly the rows written, in order
    allr = np.concatenate(rows_per_entry) if rows_per_entry else c.data[:0]
    check(same_bytes(allr, c.data), "disk.rows_differ_from_written", d)
    if not d["rechunk"]:
        for m, (s, e, i0, n) in zip(entries, c.written):
            check(m["n"] == n, "meta.n_differs_from_written_chunk", (m, n, d))
    return entries, rows_per_entry


def resolve(out):
    return [o.result() if hasattr(o, "result") else o for o in out]


def check_loaded(c, out, entries, rows_per_entry, rechunked, what="load", per_entry=True):
    d = c.d
    check(len(out) >= 1, what + ".no_chunks", d)
    for o in out:
        check(isinstance(o, strax.Chunk), what + ".not_a_chunk", (type(o).__name__, d))
        check(o.run_id == RUN_ID and o.data_type == DATA_TYPE and o.data_kind == DATA_TYPE,
              what + ".chunk_identity", (o.run_id, o.data_type, o.data_kind, d))
        check(o.dtype == c.dtype and o.data.dtype == c.dtype, what + ".dtype", (str(o.data.dtype), str(c.dtype), d))
        if len(o.data):
            check(int(o.data["time"].min()) >= o.start and int(ref_endtime(o.data).max()) <= o.end,
                  what + ".rows_outside_chunk_range", ((o.start, o.end), d))
    allr = np.concatenate([o.data for o in out])
    check(same_bytes(allr, c.data), what + ".rows_differ_from_written", d)
    check_boundaries(c, [(o.start, o.end) for o in out], rechunked, what)
    if per_entry:
        check(len(out) == len(entries), what + ".chunk_count_differs_from_metadata", (len(out), len(entries), d))
        for o, m, x in zip(out, entries, rows_per_entry):
            check((o.start, o.end) == (m["start"], m["end"]) and len(o) == m["n"] and o.data.nbytes == m["nbytes"],
                  what + ".chunk_differs_from_metadata", ((o.start, o.end, len(o)), m, d))
            check(same_bytes(o.data, x), what + ".chunk_rows_differ_from_file", (m, d))


def classes_of(c, entries):
    d = c.d
    cl = {"comp:" + d["comp"], "enc:" + d["enc"], "rechunk_on" if d["rechunk"] else "rechunk_off",
          "save_pool" if d["pool_s"] else "save_serial", "load_pool" if d["pool_l"] else "load_serial"}
    nw = len(c.written)
    if nw >= 2:
        cl.add("ge2_chunks")
    if nw >= 4:
        cl.add("ge4_chunks")
    empty = any(n == 0 for _, _, _, n in c.written)
    if empty:
        cl.add("empty_chunk")
    if any(s == e for s, e, _, _ in c.written):
        cl.add("zero_duration_chunk")
    if not d["rows"]:
        cl.add("no_rows")
    arr = any(f["shape"] for f in d["fields"])
    if arr:
        cl.add("array_field")
    if any(len(f["shape"]) == 2 for f in d["fields"]):
        cl.add("array2d_field")
    if any(f["title"] for f in d["fields"]):
        cl.add("titled_field")
    if d["nlead"] and d["fields"]:
        cl.add("fields_before_time")
    if any(b > a2 for (a, b), (a2, b2) in zip(c.srows[:-1], c.srows[1:])):
        cl.add("overlapping_rows")
    if d["shift"]:
        cl.add("start_gt_0")
    changed = False
    if d["rechunk"]:
        we = [e for _, e, _, _ in c.written[:-1]]
        se = [m["end"] for m in entries[:-1]]
        if we != se:
            changed = True
            cl.add("rechunk_changed_layout")
        if any(e not in we for e in se):
            cl.add("rechunk_new_boundary_in_gap")
        if len(se) < len(we):
            cl.add("rechunk_merged")
        if len(entries) >= 2:
            cl.add("rechunk_multi_out")
    nt = nw >= 2 and (empty or arr or changed or d["comp"] != "blosc")
    return nt, cl


def save_and_check(c, dirname, ex):
    d = c.d
    be = strax.FileSytemBackend()
    try:
        sv = be.saver(dirname, c.metadata())
        sv.save_from(c.chunks(), rechunk=d["rechunk"], executor=ex if d["pool_s"] else None)
    except Exception as e:  # noqa
        raise Violation("save.raised:" + type(e).__name__, f"{e!r} {d}") from e
    entries, rows_per_entry = check_disk_and_metadata(c, dirname)
    return be, entries, rows_per_entry


def leave_debris(dirname, kind):
    """What an earlier writer of the same key that died without closing (or an older complete copy) leaves behind;
    the save that follows must produce data whose metadata agrees with the files regardless.
    1: <key>_temp with an orphan chunk file; 2: <key>_temp with per-chunk metadata files of an inlined (forked) saver
    and a half-written metadata file; 3: an old complete directory under the final name (overwritten by design)."""
    if not kind:
        return
    prefix = f"{DATA_TYPE}-{LINEAGE_HASH}"
    d = dirname + "_temp" if kind in (1, 2) else dirname
    os.makedirs(d)
    with open(os.path.join(d, f"{prefix}-000007"), "wb") as f:
        f.write(b"debris of a writer that died")
    if kind == 2:
        with open(os.path.join(d, f"metadata_{prefix}-000007.json"), "w") as f:
            json.dump(dict(chunk_i=7, n=3, start=10 ** 15, end=10 ** 15 + 5, run_id=RUN_ID, nbytes=72,
                           filename=f"{prefix}-000007", filesize=28, subruns=None), f)
    with open(os.path.join(d, f"{prefix}-metadata.json"), "w") as f:
        f.write('{"chunks": [{"chunk_i": 7' if kind in (1, 2) else json.dumps(dict(chunks=[], writing_ended=1.0)))


def st_stale():
    return st_case().map(lambda d: dict(d, stale=1 + d["seed"] % 3))


def run_roundtrip(d):
    c = Case(d)
    root = tempfile.mkdtemp(prefix="c03-", dir=scratch())
    dirname = os.path.join(root, f"{RUN_ID}-{DATA_TYPE}-{LINEAGE_HASH}")
    ex = ThreadPoolExecutor(max_workers=d["workers"]) if (d["pool_s"] or d["pool_l"]) else None
    try:
        leave_debris(dirname, d.get("stale", 0))
        be, entries, rows_per_entry = save_and_check(c, dirname, ex)
        try:
            out = resolve(list(be.loader(dirname, executor=ex if d["pool_l"] else None)))
        except Exception as e:  # noqa
            raise Violation("load.raised:" + type(e).__name__, f"{e!r} {d}") from e
        check_loaded(c, out, entries, rows_per_entry, d["rechunk"])
        # loading must not have touched the directory
        check(set(os.listdir(dirname)) == {m["filename"] for m in entries if "filename" in m}
              | {f"{DATA_TYPE}-{LINEAGE_HASH}-metadata.json"}, "disk.file_set_changed_by_loading", d)
        nt, cl = classes_of(c, entries)
        return dict(nt=nt, classes=sorted(cl))
    finally:
        if ex is not None:
            ex.shutdown(wait=True)
        shutil.rmtree(root, ignore_errors=True)


def run_load_rechunk(d):
    """Same write; then the loader is asked to rechunk on load (split stored chunks towards src_rows rows).
    Rows, order, overall range and contiguity must be unchanged; every boundary is a written one or lies where
    no row is straddled."""
    c = Case(d)
    root = tempfile.mkdtemp(prefix="c03-", dir=scratch())
    dirname = os.path.join(root, f"{RUN_ID}-{DATA_TYPE}-{LINEAGE_HASH}")
    ex = ThreadPoolExecutor(max_workers=d["workers"]) if (d["pool_s"] or d["pool_l"]) else None
    src_mb = (d["src_rows"] + 0.5) * c.dtype.itemsize / 1e6
    try:
        be, entries, rows_per_entry = save_and_check(c, dirname, ex)
        nt, cl = classes_of(c, entries)
        cl = {k for k in cl if not k.startswith("load_")}
        # serial first (always), then through the pool when the descriptor asks for it
        try:
            out = resolve(list(be.loader(dirname, rechunk=True, source_size_mb=src_mb)))
        except Exception as e:  # noqa
            raise Violation("load_rechunk.serial_raised:" + type(e).__name__, f"{e!r} {d}") from e
        check_loaded(c, out, entries, rows_per_entry, True, what="load_rechunk", per_entry=False)
        stored_edges = [m["end"] for m in entries[:-1]]
        got_edges = [o.end for o in out[:-1]]
        if got_edges != stored_edges:
            cl.add("load_split_something")
            nt = True
        cl.add("load_rechunk_serial")
        if d["pool_l"]:
            cl.add("load_rechunk_pool")
            try:
                out2 = resolve(list(be.loader(dirname, rechunk=True, source_size_mb=src_mb, executor=ex)))
            except Exception as e:  # noqa
                raise Violation("load_rechunk.pool_raised:" + type(e).__name__, f"[executor+rechunk-on-load]{e!r} {d}") from e
            check_loaded(c, out2, entries, rows_per_entry, True, what="load_rechunk_pool", per_entry=False)
            check([(o.start, o.end) for o in out2] == [(o.start, o.end) for o in out],
                  "load_rechunk_pool.boundaries_differ_from_serial", d)
        return dict(nt=nt, classes=sorted(cl))
    finally:
        if ex is not None:
            ex.shutdown(wait=True)
        shutil.rmtree(root, ignore_errors=True)


@signature("F30_loader_rechunk_with_executor")
def _sig_f30(sub, desc, bucket, message):
    """StorageBackend._read_format_split_chunk: with an executor the chunk is a Future, but the rechunk-on-load
    branch reads `chunk.data` from it straight away -> AttributeError for every loader(rechunk=True, executor=...)."""
    return (sub == "load_rechunk" and bucket == "clause:load_rechunk.pool_raised:AttributeError"
            and bool(desc.get("pool_l")) and "[executor+rechunk-on-load]" in message
            and "'Future' object has no attribute 'data'" in message)


SUBCHECKS = [
    # no required_classes: classes are only recorded for passing cases, so a defect that breaks every case of a
    # class (e.g. every rechunked save) would be masked as a generator problem
    SubCheck("roundtrip", run_roundtrip, strategy=st_roundtrip, quick=5000, thorough=120000),
    SubCheck("stale_debris", run_roundtrip, strategy=st_stale, quick=1500, thorough=30000),
    SubCheck("grid", run_roundtrip, enumerate=enum_grid),
    SubCheck("load_rechunk", run_load_rechunk, strategy=st_load_rechunk, quick=1500, thorough=24000),
]
