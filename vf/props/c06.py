"""C06 - failures reach the caller and never hang the pipeline.

For a generated scenario (plugin graph, chunking, stored subset, processor configuration) a failure-free dry
run counts every failure position: k-th compute call of every plugin, k-th chunk read of every loader, k-th chunk
write of every saver (synchronous, or inside strax.save_file which runs on a pool worker when max_workers > 1),
consumer abandoning after k chunks.  Every position (a spread subset in the quick tier) is then executed with a
dedicated exception injected there, threaded runs under the controlled scheduler with generated schedules.
Oracle over the observed history: the caller gets the injected exception (same class and token somewhere on the
cause / context / MailboxKilled-reason chain) - not a timeout, not a normal return; afterwards no controlled
thread is alive, no deadlock, no virtual timeout fired.
"""
import itertools
import os
import shutil

from hypothesis import strategies as st

import strax
import strax.storage.files
from vf import graphs
from vf.core import SubCheck, Violation, exception_chain
from vf.findings import signature
from vf.props import c01

PROPERTY_ID = "C06"
LEVEL = "fault_enumeration"
ENV = {"NUMBA_DISABLE_JIT": "1"}
RULE = (
    "A scenario = C01-style case (graph x chunkings x stored subset x configuration).  Its failure positions are "
    "enumerated from a dry run: (stage kind in {source, mid plugin, multi-output plugin, loader, saver write, "
    "save_file call, consumer abandons}, data type, call index).  evaluations counts executed (scenario, position, "
    "schedule) triples (inner_evaluations) plus scenarios.  Non-trivial = failure at call index >= 1 or in a "
    "non-source stage.  distinct = distinct scenario descriptor hashes (positions are enumerated inside)."
)
ASSUMPTIONS = [
    "mailbox capacity above the lag as in C01 (diamonds / withholding plugins get capacity = #chunks + 3)",
    "preemption at synchronisation operations only; virtual time (a fired virtual timeout = hang)",
    "numba helpers run un-jitted (same source)",
    "consumer abandonment is it.close() after k chunks; whatever close() raises is ignored, only termination of all "
    "pipeline threads is required",
]
_COUNTER = itertools.count()


class Injector:
    """Counts / fails loader reads, saver writes and save_file calls for the scratch directory of one case."""

    def __init__(self, token):
        self.token = token
        self.counts = {}
        self.fail_at = None  # (stage, dtype, k)
        self.fired = False

    def hit(self, stage, dtype):
        key = (stage, dtype)
        k = self.counts.get(key, 0)
        self.counts[key] = k + 1
        if self.fail_at == (stage, dtype, k) and not self.fired:
            self.fired = True
            raise graphs.GraphFault(self.token)

    def install(self, path):
        inj = self
        B, Sv = strax.storage.files.FileSytemBackend, strax.storage.files.FileSaver
        self._orig = (B._read_chunk, Sv._save_chunk, strax.save_file, strax.io.save_file)
        o_read, o_save, o_sf, _ = self._orig

        def dt_of(dirname):
            return os.path.basename(dirname.rstrip("/")).split("-")[1] if dirname.startswith(path) else None

        def _read_chunk(self_, dirname, chunk_info, dtype, compressor):
            d = dt_of(dirname)
            if d is not None:
                inj.hit("loader", d)
            return o_read(self_, dirname, chunk_info, dtype, compressor)

        def _save_chunk(self_, data, chunk_info, executor=None):
            d = dt_of(self_.dirname)
            if d is not None:
                inj.hit("saver", d)
            return o_save(self_, data, chunk_info, executor=executor)

        def save_file(f, data, compressor="zstd"):
            if isinstance(f, str) and f.startswith(path):
                d = os.path.basename(os.path.dirname(f)).split("-")[1]
                inj.hit("savefile", d.replace("_temp", ""))
            return o_sf(f, data, compressor)

        B._read_chunk, Sv._save_chunk = _read_chunk, _save_chunk
        strax.save_file = strax.io.save_file = save_file

    def uninstall(self):
        B, Sv = strax.storage.files.FileSytemBackend, strax.storage.files.FileSaver
        B._read_chunk, Sv._save_chunk, strax.save_file, strax.io.save_file = self._orig


def st_case():
    return c01.st_case()


def find_fault(exc, token):
    seen = set()
    stack = [exc]
    while stack:
        e = stack.pop()
        if e is None or id(e) in seen:
            continue
        seen.add(id(e))
        if isinstance(e, graphs.GraphFault) and e.token == token:
            return True
        stack += [e.__cause__, e.__context__]
        if isinstance(e, strax.MailboxKilled) and e.args and isinstance(e.args[0], tuple) and len(e.args[0]) > 1:
            stack.append(e.args[0][1])
    return False


def one_run(d, classes, rt, base, position, policy, abandon=None):
    """Run the request once from a fresh copy of the pre-stored directory.  Returns (n_chunks, exc, S, inj)."""
    run_dir = base + f"-run{next(_COUNTER)}"
    if os.path.isdir(base):
        shutil.copytree(base, run_dir)
    else:
        os.makedirs(run_dir)
    token = classes[0]._vf_token
    inj = Injector(token)
    rt["calls"].clear()
    rt["hook"] = None
    if position is not None and position[0] == "plugin":
        _, name, k = position

        def hook(plugin, stage, chunk_i, info):
            if plugin._vf_name == name and rt["calls"][name] == k + 1:
                raise graphs.GraphFault(token)
            return None

        rt["hook"] = hook
    elif position is not None and position[0] != "abandon":
        inj.fail_at = tuple(position)
    inj.install(run_dir)
    cfg = d["cfg"]
    try:
        ctx = c01.make_context(classes, [strax.DataDirectory(run_dir)], cfg)

        def job():
            it = ctx.get_iter("r", d["target"], processor=cfg["processor"], max_workers=cfg.get("max_workers", 1),
                              progress_bar=False)
            n = 0
            if abandon is not None:
                for _ in range(abandon):
                    next(it)
                    n += 1
                try:
                    it.close()
                except Exception:  # noqa - whatever close() reports is not our concern here
                    pass
                return n
            for _ in it:
                n += 1
            return n

        if cfg["processor"] == "threaded_mailbox":
            from vf.sched import policies
            from vf.sched.scheduler import Scheduler
            S = Scheduler(policies.make_policy(policy), max_steps=400000)
            with S.installed():
                n, exc = S.run(job)
        else:
            S = None
            try:
                n, exc = job(), None
            except Exception as e:  # noqa
                n, exc = None, e
        return n, exc, S, inj
    finally:
        inj.uninstall()
        rt["hook"] = None
        shutil.rmtree(run_dir, ignore_errors=True)


def sched_clean(S, d, position, what):
    if S is None:
        return
    r = S.report()
    if S.deadlock:
        raise Violation(what + ".deadlock", f"{S.deadlock} at {position} {d}")
    if S.timeouts_fired:
        raise Violation(what + ".hang_virtual_timeout", f"{S.timeout_events} at {position} {d}")
    if S.step_limit_hit:
        raise Violation(what + ".step_limit", f"at {position} {d}")
    if r["leftover"]:
        raise Violation(what + ".threads_left_alive", f"{r['leftover']} at {position} {d}")


def spread(xs, n):
    if len(xs) <= n:
        return list(xs)
    idx = sorted({round(i * (len(xs) - 1) / (n - 1)) for i in range(n)})
    return [xs[i] for i in idx]


def run_case(d, max_positions=10):
    spec, unit = d["spec"], d["unit"]
    token = f"c06-{os.getpid()}-{next(_COUNTER)}"
    rt = graphs.new_runtime(token)
    base = c01.scratch_dir("c06")
    try:
        classes = graphs.build_classes(spec, token, unit)
        prov = graphs.providers(spec)
        c01.prestore(d, classes, rt, base)
        c01.set_sources(rt, d, "cutsB")
        threaded = d["cfg"]["processor"] == "threaded_mailbox"
        # ---- dry run: must complete (capacity is above the lag), and gives the positions
        n, exc, S, inj = one_run(d, classes, rt, base, None, d["policy"])
        if exc is not None:
            raise Violation("dry.raised:" + type(exc).__name__, f"{exc!r} {d}") from exc
        sched_clean(S, d, None, "dry")
        positions = []
        for name, cnt in sorted(rt["calls"].items()):
            for k in range(cnt):
                positions.append(["plugin", name, k])
        for (stage, dt), cnt in sorted(inj.counts.items()):
            for k in range(cnt):
                positions.append([stage, dt, k])
        for k in range(0, n + 1):
            positions.append(["abandon", None, k])
        chosen = spread(positions, max_positions) if max_positions else positions
        classes_hit = set()
        inner = 0
        for i, pos in enumerate(chosen):
            pol = dict(d["policy"])
            if "seed" in pol:
                pol["seed"] = pol["seed"] + 7919 * (i + 1)
            if pos[0] == "abandon":
                _, exc, S, _ = one_run(d, classes, rt, base, pos, pol, abandon=pos[2])
                sched_clean(S, d, pos, "abandon")
                classes_hit.add("stage:abandon")
                inner += 1
                continue
            n2, exc, S, inj2 = one_run(d, classes, rt, base, pos, pol)
            inner += 1
            kind = pos[0]
            if kind == "plugin":
                op = prov[pos[1]]["op"] if pos[1] in prov else [x for x in spec["nodes"] if x["name"] == pos[1]][0]["op"]
                kind = {"source": "source", "multi": "multi_plugin"}.get(op, "mid_plugin")
            classes_hit.add("stage:" + kind)
            tag = f"[stage={kind}][pool={'yes' if d['cfg'].get('max_workers', 1) > 1 else 'no'}]" \
                  f"[{'threaded' if threaded else 'single'}]"
            if exc is None:
                raise Violation("failure.not_reported_to_caller", f"{tag} returned normally ({n2} chunks) with a "
                                f"failure injected at {pos} {d}")
            if not find_fault(exc, token):
                raise Violation("failure.caller_got_other_exception:" + type(exc).__name__,
                                f"{tag} {exc!r} instead of the injected one at {pos} {d}")
            sched_clean(S, d, pos, "failure")
        nt = any(p[0] != "plugin" or p[2] >= 1 or prov.get(p[1], {}).get("op") != "source" for p in chosen)
        classes_hit.add("threaded" if threaded else "single_thread")
        if threaded and d["cfg"].get("max_workers", 1) > 1:
            classes_hit.add("pool")
        if d["stored"]:
            classes_hit.add("loader_fed")
        return dict(nt=nt, classes=sorted(classes_hit), inner_evaluations=inner, inner_nontrivial=inner)
    finally:
        graphs.drop_runtime(token)
        shutil.rmtree(base, ignore_errors=True)


def run_case_all(d):
    return run_case(d, max_positions=0)


SUBCHECKS = [
    SubCheck("spread_single", run_case, strategy=lambda: c01.st_case(threaded=False), quick=200, thorough=4000),
    SubCheck("spread_threaded", run_case, strategy=lambda: c01.st_case(threaded=True), quick=400, thorough=8000),
    SubCheck("all_positions", run_case_all, strategy=lambda: c01.st_case(threaded=True), quick=48, thorough=3000),
    # strax's multiprocessing path (inlined plugins and forked savers behind a simulated process boundary)
    SubCheck("spread_multiprocess", run_case, strategy=lambda: c01.st_case(threaded=True, multiprocess=True),
             quick=96, thorough=6000),
]
