"""C08 - plugins see time-aligned inputs and receive each input row exactly once.

`Plugin.iter` is driven directly: a recording harness plugin with 1-4 dependencies over 1-3 data kinds,
stub dependency plugins, `iters` = plain Python iterators over independently generated law-abiding
chunkings of every dependency.

Oracle: a validity predicate over the recorded computation calls (chunk ranges handed to do_compute, the
arrays / start / end handed to compute, the chunks yielded), written from the property statement:
  * every call: all inputs cover one identical interval == (start, end) given to compute, one merged array
    per data kind holding the columns of all dependencies of that kind, row-aligned, rows inside the call;
  * successive calls adjacent, first call starts at the run start, last call ends at the run end;
  * per dependency, the concatenation over the calls equals its rows exactly once, in order;
  * error clauses: dependencies covering the same total range => no exception (the documented "ten passes"
    error is tolerated only when the rows really contain a cross-kind straddle chain of >= 10 steps below
    some chunk end);  dependencies ending at different times => for save_when > EXPLICIT an exception or
    complete delivery, never silently dropped rows;  save_when <= EXPLICIT: documented leniency.
"""
import itertools

import numpy as np
from hypothesis import strategies as st

import strax
from vf import gen
from vf.core import SubCheck, Violation

PROPERTY_ID = "C08"
LEVEL = "exploration"
RULE = (
    "Sub-check iter: descriptors (1-4 dependencies over 1-3 data kinds, rows per kind on an integer grid scaled "
    "by a unit and shifted by an origin, one independently drawn law-abiding chunking per dependency via "
    "gen.st_cuts - giant / every admissible cut / duplicates = zero-duration chunks -, save_when in "
    "{ALWAYS,TARGET,EXPLICIT,NEVER}, modes plain / mismatch (per-kind run ends, trailing chunks dropped) / chain "
    "(cross-kind staircases built on purpose for the ten-pass limit)) are drawn from a Hypothesis strategy. "
    "Sub-checks exh / exh3: 2 dependencies of 2 kinds on the 6-point grid 0..5 (run [0,5]), start-sorted arrays of "
    "<=3 rows per kind (all 15 intervals, overlaps and duplicates included) x every subset of the admissible "
    "interior points as cut set of each dependency. exh = both kinds <=2 rows: complete in the thorough tier "
    "(722 500 cases), a seed-chosen 1/12 of the row-configuration pairs in the quick tier; exh3 = some kind has "
    "3 rows (17.6 M cases): a seed-chosen 1/6 (thorough) or 1/600 (quick) of the row-configuration pairs, all "
    "chunkings of each chosen pair. exhz = <=1 row per kind, the same cut sets plus at most one zero-duration chunk "
    "per dependency (leading [0,0], trailing [5,5] or a doubled cut): complete in the thorough tier (474 721 cases), "
    "1/12 of the pairs in the quick tier. "
    "A case is non-trivial when it has >=2 dependencies whose chunk edges differ and (a row of one "
    "kind straddles a chunk edge of a dependency of another kind, or some chunk is empty). distinct = distinct "
    "descriptor hashes."
)
ASSUMPTIONS = [
    "inputs obey the laws of chunking: rows sorted by time, positive duration, wholly inside one chunk; chunks of "
    "one dependency contiguous; zero-duration chunks allowed but empty",
    "all dependencies start at the same time (the run start); only their ends may differ (mismatch mode)",
    "same-kind dependencies share time/endtime of every row and differ in their other columns",
    "'saved by default' is read as save_when > EXPLICIT (TARGET, ALWAYS), as the code documents",
    "an 'error' for undeliverable rows is a RuntimeError or ValueError; any other exception type is reported",
]

TIME_FIELDS = list(strax.time_fields)
KIND_NAMES = ["ka", "kb", "kc"]
SAVE_NAMES = {0: "NEVER", 1: "EXPLICIT", 2: "TARGET", 3: "ALWAYS"}
# shape of the (fixed) finding F14, kept as a tag / class so that its frequency stays visible
F14_TAG = "[shape:non-pacemaker-dependency-ends-with-zero-duration-chunk]"


# ------------------------------------------------------------------------------------------------
# harness plugin
# ------------------------------------------------------------------------------------------------
class Stub:
    """Stand-in for a dependency plugin: Plugin.iter only asks it for the data kind."""

    def __init__(self, kind):
        self.kind = kind

    def data_kind_for(self, data_type):
        return self.kind


def dep_dtype(name):
    return np.dtype(TIME_FIELDS + [("c_" + name, np.int64), ("x_" + name, np.float32)])


_DT = {}


def dt_of(name):
    if name not in _DT:
        _DT[name] = dep_dtype(name)
    return _DT[name]


class _Harness(strax.Plugin):
    provides = ("out",)
    data_kind = "out"
    dtype = TIME_FIELDS
    _calls = None

    def do_compute(self, chunk_i=None, **kwargs):
        self._calls.append(dict(chunk_i=chunk_i, ranges={k: (v.start, v.end) for k, v in kwargs.items()},
                                run_ids={k: v.run_id for k, v in kwargs.items()}))
        return strax.Plugin.do_compute(self, chunk_i=chunk_i, **kwargs)

    def _rec(self, start, end, arrays):
        c = self._calls[-1]
        c["start"], c["end"] = start, end
        c["arrays"] = {k: v.copy() for k, v in arrays.items()}
        return np.zeros(0, self.dtype)


_CLS = {}


def harness_class(dep_names, kinds, save_when):
    key = (tuple(dep_names), tuple(kinds), save_when)
    if key not in _CLS:
        ns = {}
        src = ("def compute(self, %s, start, end):\n    return self._rec(start, end, dict(%s))\n"
               % (", ".join(kinds), ", ".join(f"{k}={k}" for k in kinds)))
        exec(src, {}, ns)
        _CLS[key] = type("Harness", (_Harness,), dict(depends_on=tuple(dep_names), compute=ns["compute"],
                                                      save_when=strax.SaveWhen(save_when)))
    return _CLS[key]


# ------------------------------------------------------------------------------------------------
# independent helpers (naive, from the definitions)
# ------------------------------------------------------------------------------------------------
def latest_admissible(rows, t):
    """Greatest s <= t that no row of `rows` straddles (a < s < b)."""
    if gen.admissible(rows, t):
        return t
    for s in sorted({a for a, _ in rows if a <= t}, reverse=True):
        if gen.admissible(rows, s):
            return s
    raise AssertionError("no admissible time")


def chain_length(kind_rows, t):
    """Number of strict decreases of  t -> min over kinds of latest_admissible(kind, t)  until it is stable:
    the length of the alternating cross-kind straddle chain hanging below t."""
    n = 0
    while True:
        nxt = min(latest_admissible(r, t) for r in kind_rows)
        if nxt == t:
            return n
        n += 1
        t = nxt


def check(cond, clause, tags, detail):
    if not cond:
        raise Violation(clause, "".join(sorted(tags)) + (detail if isinstance(detail, str) else repr(detail)))


# ------------------------------------------------------------------------------------------------
# generators
# ------------------------------------------------------------------------------------------------
@st.composite
def st_cuts_dep(draw, rows, t1):
    cuts = draw(gen.st_cuts(rows, 0, t1))
    # a cut at the run end makes a trailing zero-duration chunk (the F14 region): gen.st_cuts draws it in about a
    # quarter of the chunkings; on top of that 3 in 8 chunkings get a zero-duration chunk at the run end, the run
    # start or both on purpose
    extra = draw(st.sampled_from(["", "", "", "", "", "trail", "lead", "both"]))
    if extra in ("trail", "both"):
        cuts = cuts + [t1]
    if extra in ("lead", "both"):
        cuts = [0] + cuts
    return cuts


@st.composite
def st_case(draw):
    mode = draw(st.sampled_from(["plain"] * 6 + ["mismatch"] * 3 + ["chain"]))
    names = list(draw(st.permutations(["d0", "d1", "d2", "d3"])))
    kname = list(draw(st.permutations(KIND_NAMES)))
    save_when = draw(st.sampled_from([3, 3, 2, 2, 1, 0]))
    unit = draw(st.sampled_from([1, 1, 7, 1000]))
    origin = draw(st.sampled_from([0, 0, 3]))
    if mode == "chain":
        return draw(_st_chain(names, kname, save_when, unit, origin))
    ndeps = draw(st.sampled_from([1, 2, 2, 2, 3, 3, 4]))
    assign = [0]
    for _ in range(ndeps - 1):
        assign.append(draw(st.integers(0, min(max(assign) + 1, 2))))
    nk = max(assign) + 1
    kinds = []
    for k in range(nk):
        rows = draw(gen.st_rows(max_n=6, max_len=4, max_gap=3))
        kinds.append(dict(name=kname[k], rows=rows))
    tail = draw(st.integers(0, 2))
    t1 = max([b for kd in kinds for _, b in kd["rows"]] + [0]) + tail
    for kd in kinds:
        kd["t1"] = t1
        if mode == "mismatch" and draw(st.booleans()):
            kd["t1"] = max([b for _, b in kd["rows"]] + [0]) + draw(st.integers(0, 2))
    deps = []
    for i in range(ndeps):
        kd = kinds[assign[i]]
        cuts = draw(st_cuts_dep(kd["rows"], kd["t1"]))
        drop = draw(st.sampled_from([0, 0, 1, 2])) if mode == "mismatch" else 0
        deps.append(dict(name=names[i], kind=assign[i], cuts=cuts, drop=drop))
    return dict(mode=mode, kinds=kinds, deps=deps, save_when=save_when, unit=unit, origin=origin)


@st.composite
def _st_chain(draw, names, kname, save_when, unit, origin):
    """Cross-kind staircase: row j = [j, j+nk) belongs to kind j % nk, so below a chunk edge t of one kind
    hangs a chain of straddling rows of alternating kinds reaching down to 0."""
    nk = draw(st.sampled_from([2, 2, 2, 3]))
    n = draw(st.integers(8, 26))
    kinds = [dict(name=kname[k], rows=[]) for k in range(nk)]
    for j in range(n):
        kinds[j % nk]["rows"].append([j, j + nk])
    t1 = n - 1 + nk + draw(st.integers(0, 1))
    for kd in kinds:
        kd["t1"] = t1
    assign = list(range(nk))
    if draw(st.booleans()):
        assign.append(draw(st.integers(0, nk - 1)))
    order = draw(st.permutations(list(range(len(assign)))))
    assign = [assign[i] for i in order]
    style = draw(st.sampled_from(["one_cut", "one_cut", "random"]))
    cutter = draw(st.integers(0, len(assign) - 1))
    deps = []
    for i, k in enumerate(assign):
        rows = kinds[k]["rows"]
        if style == "random":
            cuts = draw(st_cuts_dep(rows, t1))
        elif i == cutter:
            adm = [s for s in range(4, min(t1, 16)) if gen.admissible(rows, s)] or [t1]
            cuts = [draw(st.sampled_from(adm))]
        else:
            cuts = []
        deps.append(dict(name=names[i], kind=k, cuts=cuts, drop=0))
    return dict(mode="chain", kinds=kinds, deps=deps, save_when=save_when, unit=unit, origin=origin)


# ---- exhaustive small scope ----------------------------------------------------------------------
EXH_T1 = 5
EXH_QUICK = 12  # quick: 1/12 (seed-chosen) of the row-configuration pairs with <=2 rows per kind
EXH3_QUICK = 600  # quick: 1/600 (seed-chosen) of the pairs in which a kind has 3 rows
EXH3_THOROUGH = 6  # thorough: 1/6 (seed-chosen) of the pairs in which a kind has 3 rows


def _start_sorted_orders(rows):
    groups = []
    for _, g in itertools.groupby(rows, key=lambda r: r[0]):
        groups.append(sorted(set(itertools.permutations([tuple(x) for x in g]))))
    for choice in itertools.product(*groups):
        yield [list(r) for grp in choice for r in grp]


def _row_configs(maxn):
    ivs = [(a, b) for a in range(EXH_T1) for b in range(a + 1, EXH_T1 + 1)]
    out = []
    for n in range(0, maxn + 1):
        for combo in itertools.combinations_with_replacement(ivs, n):
            for rows in _start_sorted_orders([list(r) for r in combo]):
                out.append(rows)
    return out


def _cut_sets(rows):
    adm = [s for s in range(1, EXH_T1) if gen.admissible(rows, s)]
    out = []
    for m in range(len(adm) + 1):
        out += [list(c) for c in itertools.combinations(adm, m)]
    return out


_EXH = {}


def _exh_tables():
    if not _EXH:
        _EXH["cfgs"] = _row_configs(3)
        _EXH["cuts"] = [_cut_sets(r) for r in _EXH["cfgs"]]
    return _EXH["cfgs"], _EXH["cuts"]


def _enum(big, modulus, seed):
    """All chunkings of the (seed-chosen 1/modulus of the) pairs of row configurations; big: a kind has 3 rows."""
    cfgs, cuts = _exh_tables()
    for ia, ra in enumerate(cfgs):
        for ib, rb in enumerate(cfgs):
            if (len(ra) == 3 or len(rb) == 3) != big:
                continue
            if modulus > 1 and (ia * 7919 + ib * 104729 + seed * 31337) % modulus:
                continue
            for ca in cuts[ia]:
                for cb in cuts[ib]:
                    yield dict(mode="plain", unit=1, origin=0, save_when=3,
                               kinds=[dict(name="ka", rows=ra, t1=EXH_T1), dict(name="kb", rows=rb, t1=EXH_T1)],
                               deps=[dict(name="d0", kind=0, cuts=ca, drop=0),
                                     dict(name="d1", kind=1, cuts=cb, drop=0)])


def _cut_multisets(rows):
    """Cut sets as in _cut_sets, each also with one extra zero-duration chunk: a leading one [0,0], a trailing
    one [5,5] or a doubled cut."""
    out = []
    for c in _cut_sets(rows):
        out.append(c)
        for p in [0] + c + [EXH_T1]:
            out.append(sorted(c + [p]))
    return out


def enum_exhz(tier, seed):
    """<=1 row per kind, chunkings with at most one zero-duration chunk per dependency."""
    cfgs = _row_configs(1)
    cuts = [_cut_multisets(r) for r in cfgs]
    modulus = EXH_QUICK if tier == "quick" else 1
    for ia, ra in enumerate(cfgs):
        for ib, rb in enumerate(cfgs):
            if modulus > 1 and (ia * 7919 + ib * 104729 + seed * 31337) % modulus:
                continue
            for ca in cuts[ia]:
                for cb in cuts[ib]:
                    yield dict(mode="plain", unit=1, origin=0, save_when=3,
                               kinds=[dict(name="ka", rows=ra, t1=EXH_T1), dict(name="kb", rows=rb, t1=EXH_T1)],
                               deps=[dict(name="d0", kind=0, cuts=ca, drop=0),
                                     dict(name="d1", kind=1, cuts=cb, drop=0)])


def enum_exh(tier, seed):
    return _enum(False, EXH_QUICK if tier == "quick" else 1, seed)


def enum_exh3(tier, seed):
    return _enum(True, EXH3_QUICK if tier == "quick" else EXH3_THOROUGH, seed)


# ------------------------------------------------------------------------------------------------
# the case
# ------------------------------------------------------------------------------------------------
def build(d):
    """Streams of real strax chunks + the expected per-dependency tables (naive, from the descriptor)."""
    u, o = d["unit"], d["origin"]
    deps = []
    for i, dep in enumerate(d["deps"]):
        kd = d["kinds"][dep["kind"]]
        rows = kd["rows"]
        name = dep["name"]
        dt = dt_of(name)
        parts = gen.partition(rows, 0, kd["t1"], dep["cuts"])
        keep = max(1, len(parts) - dep["drop"])
        parts = parts[:keep]
        nrows = sum(len(idx) for _, _, idx in parts)
        full = np.zeros(nrows, dt)
        if nrows:
            r = np.asarray(rows[:nrows], dtype=np.int64).reshape(-1, 2)
            full["time"] = (r[:, 0] + o) * u
            full["endtime"] = (r[:, 1] + o) * u
        full["c_" + name] = np.arange(nrows) * 8 + i
        full["x_" + name] = np.arange(nrows) + 0.25 * i
        chunks = []
        for a, b, idx in parts:
            sub = full[idx[0]: idx[-1] + 1].copy() if idx else full[:0].copy()
            chunks.append(strax.Chunk(start=(a + o) * u, end=(b + o) * u, data=sub, data_type=name,
                                      data_kind=kd["name"], dtype=dt, run_id="r"))
        deps.append(dict(name=name, kind=kd["name"], kidx=dep["kind"], full=full, chunks=chunks,
                         edges=[c.end for c in chunks], end=chunks[-1].end))
    return deps


def analyse(d, deps):
    """Facts about the input used for classes, the NT rule, the ten-pass tolerance and the F14 shape."""
    u, o = d["unit"], d["origin"]
    kind_rows = [[((a + o) * u, (b + o) * u) for a, b in kd["rows"]] for kd in d["kinds"]]
    t0 = o * u
    ends = [dp["end"] for dp in deps]
    consistent = len(set(ends)) == 1
    interior_edges = {}
    for dp in deps:
        interior_edges[dp["name"]] = [e for e in dp["edges"][:-1]]
    straddle = False
    for dp in deps:
        for e in interior_edges[dp["name"]]:
            for k, rows in enumerate(kind_rows):
                if k != dp["kidx"] and not gen.admissible(rows, e):
                    straddle = True
    all_edges = sorted({e for dp in deps for e in dp["edges"]})
    max_chain = max(chain_length(kind_rows, e) for e in all_edges)
    empty_chunk = any(len(c) == 0 for dp in deps for c in dp["chunks"])
    zero_dur = any(c.start == c.end for dp in deps for c in dp["chunks"])
    edge_sets = {tuple(dp["edges"]) for dp in deps}
    # pacemaker as documented in Plugin.iter: "whoever is the slowest", i.e. the dependency whose first
    # chunk ends earliest (the first one in depends_on order on ties)
    first_ends = [dp["chunks"][0].end for dp in deps]
    pm = first_ends.index(min(first_ends))
    f14 = consistent and any(
        i != pm and len(dp["chunks"]) >= 2 and dp["chunks"][-1].start == dp["chunks"][-1].end
        for i, dp in enumerate(deps))
    return dict(kind_rows=kind_rows, t0=t0, consistent=consistent, straddle=straddle, max_chain=max_chain,
                empty_chunk=empty_chunk, zero_dur=zero_dur, differ=len(edge_sets) > 1, f14=f14,
                t_end=min(ends), nchunks=[len(dp["chunks"]) for dp in deps])


def run_case(d):
    deps = build(d)
    A = analyse(d, deps)
    sw = d["save_when"]
    strict_save = sw > 1  # saved by default: TARGET, ALWAYS
    consistent = A["consistent"]
    tags = set()
    if A["f14"]:
        tags.add(F14_TAG)

    dep_names = [dp["name"] for dp in deps]
    kinds = []
    for dp in deps:
        if dp["kind"] not in kinds:
            kinds.append(dp["kind"])
    P = harness_class(dep_names, kinds, sw)
    p = P()
    p._calls = calls = []
    p.deps = {dp["name"]: Stub(dp["kind"]) for dp in deps}
    p.run_id = "r"
    p.config = {}
    p.fix_dtype()
    iters = {dp["name"]: iter(dp["chunks"]) for dp in deps}
    out = []
    err = None
    try:
        for res in p.iter(iters):
            out.append(res)
    except (RuntimeError, ValueError) as e:
        err = e
    classes = set()
    msg = str(err) if err is not None else ""

    # ---- error clauses -----------------------------------------------------------------------------
    tenpass = err is not None and isinstance(err, RuntimeError) and "after ten pass" in msg
    if consistent:
        if err is not None:
            if tenpass and A["max_chain"] >= 10:
                classes.add("tenpass_error_tolerated")
            else:
                raise Violation("consistent.raised:" + type(err).__name__,
                                "".join(sorted(tags)) + f"max_chain={A['max_chain']} {err!r} on {d}") from err
    else:
        if err is not None:
            if "ended prematurely" in msg:
                classes.add("mismatch_raised_premature_end")
            elif "without fetching last" in msg:
                classes.add("mismatch_raised_unfetched_chunk")
            elif "leftover" in msg:
                classes.add("mismatch_raised_leftover_rows")
            elif tenpass:
                classes.add("mismatch_raised_tenpass")
            else:
                classes.add("mismatch_raised_other")
        else:
            classes.add("mismatch_no_error")

    # ---- validity predicate over the calls made (all of them; before an accepted error: a prefix) ----
    lenient = (not consistent) and not strict_save
    if err is None:
        check(len(calls) >= 1, "calls.none", tags, d)
        check(len(out) == len(calls), "calls.results_vs_calls", tags, (d, len(out), len(calls)))
    deps_of_kind = {k: [dp for dp in deps if dp["kind"] == k] for k in kinds}
    seen = {dp["name"]: [] for dp in deps}
    prev_end = A["t0"]
    done = []
    for ci, c in enumerate(calls):
        if "start" not in c:
            # do_compute refused the inputs before calling compute: only as (part of) a raised error
            check(err is not None and ci == len(calls) - 1, "calls.compute_not_called", tags, (d, ci))
            continue
        done.append(c)
        s, e = c["start"], c["end"]
        rng = set(c["ranges"].values())
        same_range = len(rng) == 1
        if not same_range:
            check(lenient, "call.inputs_cover_different_intervals", tags, (d, ci, c["ranges"]))
            classes.add("lenient_inconsistent_ranges")
        else:
            check(rng == {(s, e)}, "call.start_end_not_the_input_interval", tags, (d, ci, c["ranges"], (s, e)))
        check(set(c["arrays"]) == set(kinds), "call.kinds", tags, (d, ci, sorted(c["arrays"])))
        check(s <= e, "call.negative_interval", tags, (d, ci, s, e))
        if same_range or not lenient:
            check(s == prev_end, "calls.not_adjacent" if ci else "calls.first_not_at_run_start", tags,
                  (d, ci, s, prev_end))
        prev_end = e
        for k in kinds:
            arr = c["arrays"][k]
            want_cols = {"time", "endtime"}
            for dp in deps_of_kind[k]:
                want_cols.update(("c_" + dp["name"], "x_" + dp["name"]))
            check(set(arr.dtype.names) == want_cols, "call.merged_columns", tags, (d, ci, k, arr.dtype.names))
            if len(arr):
                check(arr["time"].min() >= s and arr["endtime"].max() <= e, "call.row_outside_interval", tags,
                      (d, ci, k, (s, e), arr["time"].tolist(), arr["endtime"].tolist()))
            for dp in deps_of_kind[k]:
                seen[dp["name"]].append(arr)
    if len(out) == len(done):
        for ci, (c, res) in enumerate(zip(done, out)):
            check(isinstance(res, strax.Chunk) and (res.start, res.end) == (c["start"], c["end"])
                  and res.data_type == "out", "result.interval", tags, (d, ci, repr(res)))

    # every row exactly once, in order, row-aligned across same-kind dependencies
    undelivered = False
    for i, dp in enumerate(deps):
        name = dp["name"]
        full = dp["full"]
        parts = seen[name]
        n = sum(len(a) for a in parts)
        got = np.zeros(n, full.dtype)
        pos = 0
        for a in parts:
            for f in full.dtype.names:
                got[f][pos: pos + len(a)] = a[f]
            pos += len(a)
        m = min(n, len(full))
        check(n <= len(full) and gen.arrays_equal(got[:m], full[:m]), "rows.not_exactly_once_in_order", tags,
              (d, name, got["c_" + name].tolist(), full["c_" + name].tolist()))
        if n < len(full):
            undelivered = True
    if consistent and err is None:
        check(not undelivered, "rows.dropped", tags, (d, {k: sum(len(a) for a in v) for k, v in seen.items()}))
        check(prev_end == A["t_end"], "calls.last_not_at_run_end", tags, (d, prev_end, A["t_end"]))
    if not consistent and err is None:
        if strict_save:
            check(not undelivered, "mismatch.rows_silently_dropped", tags,
                  (d, {k: sum(len(a) for a in v) for k, v in seen.items()},
                   {dp["name"]: len(dp["full"]) for dp in deps}))
        elif undelivered:
            classes.add("lenient_rows_dropped")

    # ---- classes / NT ------------------------------------------------------------------------------
    nd = len(deps)
    classes.add(f"deps={nd}")
    classes.add(f"kinds={len(kinds)}")
    classes.add("save_when=" + SAVE_NAMES[sw])
    classes.add("mode=" + d["mode"] + ("" if consistent or d["mode"] != "mismatch" else "(ends differ)"))
    if len(kinds) < nd:
        classes.add("same_kind_deps")
        if any(len({tuple(dp["edges"]) for dp in v}) > 1 for v in deps_of_kind.values()):
            classes.add("same_kind_deps_chunked_differently")
    if A["straddle"]:
        classes.add("row_straddles_other_kinds_chunk_edge")
    mc = A["max_chain"]
    classes.add("chain=" + ("0" if mc == 0 else "1" if mc == 1 else "2-4" if mc <= 4 else "5-8" if mc <= 8
                            else "9" if mc == 9 else "10" if mc == 10 else ">10"))
    if A["empty_chunk"]:
        classes.add("empty_chunk")
    if A["zero_dur"]:
        classes.add("zero_duration_chunk")
    if nd >= 2 and min(A["nchunks"]) == 1 and max(A["nchunks"]) >= 4:
        classes.add("giant_vs_many_tiny")
    if len(done) >= 3:
        classes.add("calls>=3")
    if any(c["start"] == c["end"] for c in done):
        classes.add("zero_duration_call")
    if A["f14"]:
        classes.add("non_pacemaker_dep_ends_with_zero_duration_chunk(F14 shape)")
    nt = nd >= 2 and A["differ"] and (A["straddle"] or A["empty_chunk"])
    return dict(nt=nt, classes=sorted(classes))


SUBCHECKS = [
    SubCheck("iter", run_case, strategy=st_case, quick=16000, thorough=400000),
    SubCheck("exh", run_case, enumerate=enum_exh, exhaustive_in=("thorough",)),
    SubCheck("exh3", run_case, enumerate=enum_exh3, exhaustive_in=()),
    SubCheck("exhz", run_case, enumerate=enum_exhz, exhaustive_in=("thorough",)),
]
