"""python3-vt -m vf.validate  : validate MANIFEST.json and evidence/*.json against the schemas."""
import glob, json, sys
import jsonschema
ok = True
def v(path, schema):
    global ok
    try:
        jsonschema.validate(json.load(open(path)), json.load(open(schema)))
        print("ok ", path)
    except Exception as e:
        ok = False
        print("BAD", path, str(e)[:400])
v("MANIFEST.json", "/root/.vp/MANIFEST.schema.json")
for p in sorted(glob.glob("evidence/*.json")):
    v(p, "/root/.vp/EVIDENCE.schema.json")
sys.exit(0 if ok else 1)
