"""File-system fault layer: counts every mutating file-system call issued under one directory and can make the
i-th one fail (OSError: once, sticky = everything from there on, or path = every later operation on that same path) or
kill the process just before / after it.

Intercepted, process-wide while installed: os.makedirs, os.mkdir, os.rename, os.replace, os.remove, os.unlink,
os.rmdir, shutil.rmtree, shutil.move, builtins.open in a writing mode (and the write()/close() of the file
object it returns).  Calls on paths outside `root` pass through untouched and are not counted.
"""
import builtins
import errno
import os
import shutil


class Killed(BaseException):
    pass


class FSFaults:
    def __init__(self, root, fail_at=None, mode="raise", err=errno.ENOSPC):
        self.root = os.path.abspath(root)
        self.fail_at = fail_at
        self.mode = mode  # raise | sticky | path | die_before | die_after
        self.err = err
        self.n = 0
        self.log = []
        self.fired = []
        self._orig = None

    # -- core
    def _inside(self, path):
        try:
            return os.path.abspath(os.fspath(path)).startswith(self.root)
        except TypeError:
            return False

    def _label(self, op, path):
        p = os.path.abspath(os.fspath(path))
        rel = os.path.relpath(p, self.root)
        parts = rel.split(os.sep)
        kind = "parent" if rel in (".", "") else ("dir" if len(parts) == 1 else "file")
        what = ""
        if kind == "dir":
            what = "tempdir" if parts[0].endswith("_temp") else "finaldir"
        elif kind == "file":
            base = parts[-1]
            if "metadata" in base:
                what = "metadata"
            elif base.endswith("_temp"):
                what = "chunk_temp"
            else:
                what = "chunk"
        return f"{op}:{what or kind}"

    def hit(self, op, path, do):
        """Count the operation; perform it via do() unless a fault is due."""
        if not self._inside(path):
            return do()
        i = self.n
        self.n += 1
        label = self._label(op, path)
        self.log.append(label)
        due = self.fail_at is not None and (i == self.fail_at or (self.mode == "sticky" and i > self.fail_at))
        if self.mode == "path" and self.fail_at is not None:
            # a file / directory that cannot be written however often it is tried (quota, bad block, permissions):
            # every later operation on the path of operation fail_at fails too, everything else works
            ap = os.path.abspath(os.fspath(path))
            if i == self.fail_at:
                self.fail_path = ap
            due = i >= self.fail_at and ap == getattr(self, "fail_path", None)
        if due:
            self.fired.append((i, label))
            if self.mode in ("raise", "sticky", "path"):
                raise OSError(self.err, f"injected fault at fs op {i} ({label})", os.fspath(path))
            if self.mode == "die_before":
                os._exit(137)
            if self.mode == "die_after":
                try:
                    do()
                finally:
                    os._exit(137)
        return do()

    # -- installation
    def __enter__(self):
        f = self
        o = self._orig = dict(makedirs=os.makedirs, mkdir=os.mkdir, rename=os.rename, replace=os.replace,
                              remove=os.remove, unlink=os.unlink, rmdir=os.rmdir, rmtree=shutil.rmtree,
                              move=shutil.move, open=builtins.open)

        def wrap1(name, op):
            orig = o[name]

            def fn(path, *a, **kw):
                return f.hit(op, path, lambda: orig(path, *a, **kw))

            return fn

        def wrap2(name, op):
            orig = o[name]

            def fn(src, dst, *a, **kw):
                return f.hit(op, src, lambda: orig(src, dst, *a, **kw))

            return fn

        class FileProxy:
            def __init__(self, fh, path):
                self._fh = fh
                self._path = path

            def write(self, data):
                return f.hit("write", self._path, lambda: self._fh.write(data))

            def close(self):
                return self._fh.close()

            def __enter__(self):
                self._fh.__enter__()
                return self

            def __exit__(self, *a):
                return self._fh.__exit__(*a)

            def __getattr__(self, k):
                return getattr(self._fh, k)

            def __iter__(self):
                return iter(self._fh)

        def open_(file, mode="r", *a, **kw):
            if isinstance(file, (str, bytes, os.PathLike)) and any(c in mode for c in "wax+") and f._inside(file):
                fh = f.hit("open", file, lambda: o["open"](file, mode, *a, **kw))
                return FileProxy(fh, file)
            return o["open"](file, mode, *a, **kw)

        os.makedirs = wrap1("makedirs", "makedirs")
        os.mkdir = wrap1("mkdir", "mkdir")
        os.remove = wrap1("remove", "remove")
        os.unlink = wrap1("unlink", "remove")
        os.rmdir = wrap1("rmdir", "rmdir")
        shutil.rmtree = wrap1("rmtree", "rmtree")
        os.rename = wrap2("rename", "rename")
        os.replace = wrap2("replace", "rename")
        shutil.move = wrap2("move", "move")
        builtins.open = open_
        return self

    def __exit__(self, *a):
        o = self._orig
        os.makedirs, os.mkdir, os.rename, os.replace = o["makedirs"], o["mkdir"], o["rename"], o["replace"]
        os.remove, os.unlink, os.rmdir = o["remove"], o["unlink"], o["rmdir"]
        shutil.rmtree, shutil.move, builtins.open = o["rmtree"], o["move"], o["open"]
        return False
