"""Core types shared by the runner and the property modules.

A property module (vf/props/cXX.py) defines

    PROPERTY_ID = "C07"
    LEVEL       = "exploration" | "fault_enumeration"
    RULE        = "how cases are generated and what makes one non-trivial"
    ASSUMPTIONS = [...]
    SUBCHECKS   = [SubCheck(...), ...]

Every case is a plain-JSON *descriptor*.  `run(desc)` executes the case against the real strax
code and its oracle and returns an info dict {"nt": bool, "classes": [str, ...]};  it raises
`Violation(clause, detail)` when the oracle is contradicted.  Any other exception escaping `run`
whose traceback passes through strax is bucketed as a violation too ("exc:<Type>@<frame>") - so
`run` must itself catch the exceptions the contract allows;  an exception with no strax frame is a
harness error (exit 2), never a violation.
"""
import hashlib
import json
import os
import traceback
from dataclasses import dataclass, field
from typing import Any, Callable, Optional


class Violation(Exception):
    def __init__(self, clause, detail=""):
        super().__init__(f"{clause}: {detail}")
        self.clause = clause
        self.detail = detail


class Inconclusive(Exception):
    """The case could not be decided (e.g. a real-thread supplement timed out)."""


class Excluded(Exception):
    """The generator steered away from a recorded finding; counted in excluded_known."""

    def __init__(self, finding):
        super().__init__(finding)
        self.finding = finding


@dataclass
class SubCheck:
    name: str
    run: Callable[[Any], Optional[dict]]
    # exactly one of strategy / enumerate
    strategy: Optional[Callable[[], Any]] = None  # () -> hypothesis strategy of descriptors
    enumerate: Optional[Callable[[str], Any]] = None  # (tier) -> iterable of descriptors (finite)
    quick: int = 200  # number of generated cases (all shards together)
    thorough: int = 2000
    shards: int = 16  # how many worker processes to use at most
    min_per_shard: int = 20
    # cells that must be hit by some case (else exit 2: generator problem)
    required_classes: tuple = ()
    exhaustive_in: tuple = ()  # tiers in which `enumerate` covers its space completely
    sample_cap: int = 2500  # max chars of a sample descriptor kept in the evidence


def desc_hash(desc) -> str:
    return hashlib.sha1(json.dumps(desc, sort_keys=True, default=str).encode()).hexdigest()[:16]


REPO = os.environ.get("VERIF_REPO", "/repo")


def innermost_strax_frame(tb) -> Optional[str]:
    """'strax/chunk.py:split' of the innermost traceback frame that lies in the strax package."""
    best = None
    for fs in traceback.extract_tb(tb):
        fn = fs.filename.replace("\\", "/")
        if "/strax/" in fn and "/vf/" not in fn:
            best = "strax/" + fn.split("/strax/", 1)[1] + ":" + fs.name
    return best


def exception_chain(e):
    seen = set()
    while e is not None and id(e) not in seen:
        seen.add(id(e))
        yield e
        e = e.__cause__ or e.__context__


def bucket_of(exc) -> Optional[str]:
    """Root-cause bucket of a failure, or None when it is a harness error."""
    if isinstance(exc, Violation):
        return "clause:" + exc.clause
    for e in exception_chain(exc):
        fr = innermost_strax_frame(e.__traceback__)
        if fr is not None:
            return f"exc:{type(e).__name__}@{fr}"
    return None


def short(obj, cap=2500):
    s = json.dumps(obj, sort_keys=True, default=str)
    if len(s) <= cap:
        return obj
    return {"truncated_json": s[:cap] + "..."}
