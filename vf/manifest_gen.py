"""Regenerate MANIFEST.json from the table below:  python -m vf.manifest_gen"""
import json, os
HERE = os.path.dirname(os.path.dirname(os.path.abspath(__file__)))

CHECKS = {
    "C01": dict(
        category="exploration",
        text="Generated plugin graphs (8 plugin kinds) x independent chunkings x processor/worker/lazy/capacity "
             "configurations x stored subsets x controlled thread schedules, compared bit-for-bit with a pure "
             "whole-run reference evaluator; yielded chunks must tile the run; everything stored is re-read and "
             "compared. Sub-checks: single, threaded, plugin_capacity (room given by Plugin.max_messages only), "
             "multiprocess (simulated process pool). Exploration (sampling) is the honest level for a product space "
             "this large.",
        design_ref="DESIGN.md §5 C01, §2 G-graph, §3",
        note="Trusts the reference evaluator vf/graphs.py:evaluate and that the grammar's computations are "
             "chunking-invariant by definition; threads are pre-empted at synchronisation points only; numba "
             "helpers run un-jitted (same source); strax's multiprocessing path (inlined plugins, forked savers) runs "
             "behind a simulated process boundary (pickled job on a copy, pickled result) on controlled threads - real "
             "worker processes, worker death and allow_shm are not exercised.",
        technique="property-based testing (Hypothesis) with reference model + controlled-scheduler schedule fuzzing",
    ),
    "C02": dict(
        category="exploration",
        text="Model-based histories (generated operation lists over one shared storage directory: set_config of "
             "tracked / untracked / shared / child options, re-registration variants, in-place version bumps, "
             "new_context, make / get from two contexts, fuzzy toggles) checked after every step against an "
             "independent lineage model and a fresh Context on an empty directory; key stability across insertion "
             "orders and across child interpreters with other PYTHONHASHSEEDs.",
        design_ref="DESIGN.md §5 C02",
        note="Option values that strax cannot serialise (np scalars / arrays / immutabledict in tracked options) are "
             "skipped and counted; True / 1 / 1.0 are different values (the harness plugins compute different rows for them); "
             "list = tuple = array, dict = immutabledict, numpy = python scalar of one kind accept both outcomes.",
        technique="model-based (stateful) property testing with reference lineage model + cross-process differential",
    ),
    "C14": dict(
        category="exploration",
        text="Generated superruns (1-4 subruns with own rows / chunkings / gaps, shuffled definitions, 1-3 plugin "
             "levels with the first superrun level anywhere incl. exhaust and two-dependency plugins, "
             "write_superruns, rechunking across borders, both processors, histories with re-read, combining and "
             "redefinition) against a pure list evaluator and the literal concatenation of per-subrun results; "
             "span bookkeeping predicate on every yielded / stored chunk and metadata entry; continuity_check "
             "driven with hand-built streams.",
        design_ref="DESIGN.md §5 C14",
        note="DataDirectory with run documents at ms resolution; threaded runs under the controlled scheduler; "
             "numba helpers un-jitted.",
        technique="property-based testing with reference evaluator + validity predicate over chunk annotations",
    ),
    "C15": dict(
        category="exploration",
        text="multi_run requests (2-8 runs, 1-8 workers, single / multiple same-kind targets, cold / warm caches, "
             "storage, run-id options, failing runs with and without ignore_errors, get_array / get_df / make) "
             "executed under the controlled scheduler with line-level preemption of strax/context.py and "
             "strax/utils.py; oracle = sequential single-run results in sorted run-id order, exact failure "
             "semantics, no foreign exception in any worker, registry and caches equal to a sequential execution.",
        design_ref="DESIGN.md §5 C15, §3",
        note="Workers use the single-thread processor (as multi_run does); real-thread supplement only in the "
             "thorough tier, its failures count only if reproduced under a controlled schedule.",
        technique="schedule fuzzing with line-level preemption (controlled scheduler) vs sequential reference",
    ),
    "C17": dict(
        category="exploration",
        text="Quadratic reference definitions for containment, touching windows, split functions, overlap indices, "
             "diff / break finding, time-to-neighbour and sorting, compared exhaustively on all configurations of "
             "<= 4 things and <= 3 containers on a 7-point grid (both encodings, windows -2..3; a seed-chosen slice "
             "in the quick tier) and on random arrays up to 200 rows; unsorted inputs must be rejected; sorting "
             "stable and deterministic.",
        design_ref="DESIGN.md §5 C17",
        note="Documented preconditions only (sorted inputs, non-overlapping containers for containment ...); with "
             "unsorted endtimes only the documented weaker touching-window guarantee.",
        technique="exhaustive small-scope enumeration + property-based testing vs reference model",
    ),
    "C19": dict(
        category="exploration",
        text="Reference clusterer (all acceptable clusterings under the duration rule), dense ground-truth "
             "waveform model for sum_waveform / merge / split, exact formulas for the helpers; generated hit sets and "
             "exhaustive small waveforms / index sets.",
        design_ref="DESIGN.md §5 C19",
        note="float32 sums compared with a stated tolerance (1e-5 * terms); known finding F17 steered around in the "
             "chains that need disjoint peaks.",
        technique="property-based testing + exhaustive small-scope enumeration vs reference model",
    ),
    "C03": dict(
        category="exploration",
        text="Generated dtypes (scalar / array-valued / titled fields, both time encodings) x law-abiding chunk "
             "sequences x 4 compressors x rechunk on/off x serial / thread-pool saving and loading, driven directly "
             "through the file-system backend; files are decoded by an independent decoder and every metadata clause "
             "(n, nbytes, filesize, first/last times, ranges, run id, completion marker, file set) is recomputed "
             "from the decoded rows; plus rechunk-on-load.",
        design_ref="DESIGN.md §5 C03",
        note="FileSytemBackend only; rechunking cases draw dtypes from a fixed menu (numba compile time per dtype); "
             "boolean fields scalar only (numba cannot type nested boolean arrays).",
        technique="property-based testing (Hypothesis) round trip + independent decoder / metadata recomputation",
    ),
    "C04": dict(
        category="fault_enumeration",
        text="Every mutating file-system operation of a generated scenario (index enumerated from a counting dry "
             "run) x {OSError once, OSError sticky, OSError persistent on that path, process death before / after (forked child, os._exit)}; observer "
             "= fresh Context without faults: everything reported stored loads completely and equals the whole-run "
             "reference, a call that returned normally stored what the fault-free run stores, and the identical retry "
             "succeeds without cleanup. Both processors, serial and thread-pool saving, and savers inlined (forked) "
             "into simulated pool-worker processes.",
        design_ref="DESIGN.md §5 C04, §4",
        note="Faults are injected at Python-level os / shutil / open / write calls under the storage directory; "
             "process death is os._exit in a forked child; DataDirectory only; quick tier takes a spread of indices "
             "containing every operation label, thorough / all_indices every index (<= 80, else 40 spread).",
        technique="exhaustive fault-position enumeration (fs fault layer, fork-based crash) with reference-model observer",
    ),
    "C08": dict(
        category="exploration",
        text="Plugin.iter driven directly with stub dependencies: generated (1-4 dependencies, 1-3 kinds, "
             "independent chunkings incl. zero-duration chunks, mismatch and straddle-chain modes) plus exhaustive "
             "small-scope enumeration of all rows x all chunkings on a 6-point grid; validity predicate over the "
             "recorded compute calls (identical interval for all inputs, same-kind merge, adjacency, every input row "
             "exactly once in order, errors exactly where rows would be dropped).",
        design_ref="DESIGN.md §5 C08",
        note="The documented ten-pass error is tolerated only for genuine straddle chains of length >= 10; "
             "save_when <= EXPLICIT leniency accepted as documented.",
        technique="property-based testing + exhaustive small-scope enumeration with a validity predicate over histories",
    ),
    "C10": dict(
        category="exploration",
        text="Stored layouts (independent chunkings, encodings, rechunk on save / load) x ranges with endpoints on, "
             "just inside and just outside every row and chunk edge (exhaustive pair sweep on small runs) x three "
             "range forms x both time-selection modes x selections x column projections x both processors x single "
             "and same-kind multi targets; oracle project(select(time_filter(reference))) written from the "
             "docstrings; explicit error / empty result clauses; storage listing unchanged by partial requests.",
        design_ref="DESIGN.md §5 C10",
        note="DataDirectory only; seconds ranges on exactly representable units; multi-target cases steer around "
             "known finding F13 (counted).",
        technique="property-based testing + exhaustive endpoint-pair sweep vs reference model",
    ),
    "C11": dict(
        category="exploration",
        text="An independent planner reference (which plugins run, what is loaded, what is saved per frontend, "
             "which explicit error) written from the property text is compared with get_components, compute-call "
             "counters, per-frontend directory diffs, returned rows and raised exceptions over generated graphs, "
             "stored subsets in 1-2 filtered frontends, targets, save=, request modifiers and forbid_creation_of.",
        design_ref="DESIGN.md §5 C11",
        note="DataDirectory frontends only; call counts predicted only where chunk-count determined; time ranges "
             "only with a single target (multi-target time ranges are C10 / F13).",
        technique="property-based testing (Hypothesis) against a reference planner model",
    ),
    "C12": dict(
        category="exploration",
        text="Full matrix violation kind x plugin kind x position x processor (required cells enforced) plus random "
             "cases: the k-th result of one plugin in an otherwise healthy generated graph is replaced by a "
             "contract-violating one; the request must raise, delivered chunks must be a clean prefix of the "
             "reference, the offending type and its descendants must not be left stored, everything else stored "
             "must load and equal the reference.",
        design_ref="DESIGN.md §5 C12",
        note="Violations are injected at Plugin._fix_output; gap / overlap only for a requested target at chunk "
             "index >= 1; threaded runs under the controlled scheduler.",
        technique="fault-injection matrix + property-based testing with reference model",
    ),
    "C16": dict(
        category="exploration",
        text="Stored layouts (free-form dtypes, chunkings incl. empty / zero-duration chunks, compressors) x "
             "copy_to_frontend / stand-alone rechunker (serial, thread, process; in place, to new location, via the "
             "script) / rechunk_on_load / per-chunk builds over every grouping of dependency chunks + "
             "merge_per_chunk_storage; destination rows byte-equal to the reference, destination metadata "
             "recomputed from independently decoded files, key / lineage unchanged, source directory hash unchanged "
             "unless replace.",
        design_ref="DESIGN.md §5 C16",
        note="DataDirectory only; thread / process modes on real threads and pools (schedules not controlled); "
             "process mode only in the thorough tier; numba helpers un-jitted.",
        technique="property-based testing + exhaustive grouping enumeration, round trip with independent decoder",
    ),
    "C18": dict(
        category="exploration",
        text="Reference hit finder / record linker / reduction mask / baseline / integrate written from the "
             "docstrings, compared field by field on generated pulses (1-3 channels, 1-3 fragments, all threshold "
             "forms) and exhaustively on all short pulses over a 3-letter alphabet x all fragmentations x extensions.",
        design_ref="DESIGN.md §5 C18",
        note="NaN baseline_rms excluded; one dt per channel; extensions <= record length.",
        technique="property-based testing + exhaustive small-scope enumeration vs reference model",
    ),
    "C05": dict(
        category="exploration",
        text="Mailbox-only harness under a cooperative scheduler that owns every interleaving: random/PCT/targeted "
             "schedules over generated configurations plus stateless DFS of all schedules up to a preemption bound "
             "for small configurations; oracle = exact delivered sequences, termination, no deadlock / virtual "
             "timeout, capacity invariant inspected at every scheduler step.",
        design_ref="DESIGN.md §5 C05, §3",
        note="Pre-emption at synchronisation operations only (sound for the mailbox: all state under one lock); "
             "DFS exhaustive only up to the stated preemption bound / schedule cap; virtual time.",
        technique="schedule fuzzing + bounded-exhaustive schedule enumeration (controlled scheduler) with history oracle",
    ),
    "C06": dict(
        category="fault_enumeration",
        text="For each generated scenario every failure position found by a dry run (k-th compute call of each "
             "plugin, k-th chunk read of each loader, k-th chunk write of each saver - synchronous and on a pool "
             "worker -, consumer abandoning after k chunks) is executed with a token-carrying exception injected "
             "there (a spread subset in the quick tier, all positions in all_positions / thorough); threaded runs "
             "under generated schedules of the controlled scheduler, incl. strax's multiprocessing path behind a "
             "simulated process boundary. Oracle: caller receives the injected exception, "
             "no hang (virtual timeout), no deadlock, no surviving thread.",
        design_ref="DESIGN.md §5 C06, §3",
        note="Failures are exceptions raised at Python-level call sites (plugin compute, FileSytemBackend._read_chunk, "
             "FileSaver._save_chunk, strax.save_file); pre-emption at synchronisation points; capacity above the lag.",
        technique="fault injection at enumerated positions x schedule fuzzing (controlled scheduler), history oracle",
    ),
    "C09": dict(
        category="exploration",
        text="Generated disjoint inputs x chunkings (many chunks shorter than the window, empty / zero-duration "
             "chunks) x symmetric / asymmetric windows x per-row and per-group window-local computations x single / "
             "multi output, through a real Context with both processors and by driving Plugin.iter directly; oracle = "
             "the same computation applied once to the whole run, bit-exact, plus contiguity and mutual alignment of "
             "output chunks.",
        design_ref="DESIGN.md §5 C09",
        note="Computations are local within the declared window (documented contract); a 20% 'margin' regime uses "
             "locality up to the implementation's 2*window validity margin to detect narrowed margins.",
        technique="property-based testing (Hypothesis), metamorphic whole-run vs chunked oracle",
    ),
    "C13": dict(
        category="exploration",
        text="Consumer parked after k chunks, all other threads run under the controlled scheduler to quiescence; "
             "source production must stay below a run-length independent bound for N and 2N chunks, eager mailboxes "
             "never exceed capacity (checked at every scheduler step), lazy senders only advance on real demand "
             "(checked at every source advance).",
        design_ref="DESIGN.md §5 C13, §3",
        note="The bound B is an over-estimate derived from the numbers of mailboxes, subscriptions and threads; "
             "only its independence of N matters. Exhaust plugins excluded.",
        technique="schedule fuzzing to quiescence (controlled scheduler) with invariant + metamorphic (N vs 2N) oracle",
    ),
    "C07": dict(
        category="exploration",
        text="Generated + small-scope exhaustive search of Chunk.split / concatenate / merge / Rechunker against "
             "brute-force list references (greatest admissible time <= t, column-wise merge, validity predicate for "
             "rechunked streams, partition of sub-/super-run spans). Exploration is the right level: the functions "
             "are pure and cheap, so tens of thousands of structured cases and the complete <=4-row space are covered.",
        design_ref="DESIGN.md §5 C07",
        note="Trusts numpy and the reference functions in vf/props/c07.py; inputs restricted to the documented laws "
             "of chunking (sorted rows of positive duration inside their chunk).",
        technique="property-based testing (Hypothesis) + exhaustive small-scope enumeration vs reference model",
    ),
}

NOT_YET = {}
ALL = [f"C{i:02d}" for i in range(1, 20)]


def main():
    checks = []
    for pid in ALL:
        c = CHECKS.get(pid)
        if not c:
            continue
        checks.append(dict(
            property_id=pid,
            quick_cmd=f"./check {pid} --tier quick",
            thorough_cmd=f"./check {pid} --tier thorough",
            evidence_file=f"/verif/evidence/{pid}.json",
            replay_cmd_template=f"./check {pid} --replay {{path}}",
            engine="vf",
            level_claimed=dict(category=c["category"], text=c["text"], design_ref=c["design_ref"]),
            level_note=c["note"],
            technique=c["technique"],
        ))
    na = [dict(property_id=p, reason=NOT_YET.get(p, "check not built yet in this revision (design in DESIGN.md §5); "
                                                   "nothing is claimed for it"))
          for p in ALL if p not in CHECKS]
    m = dict(
        version=1,
        setup_cmd="/venv/bin/python -c 'import hypothesis' 2>/dev/null || /venv/bin/pip install --no-index "
                  "--find-links /opt/veriftools/wheels hypothesis",
        hooks=dict(guard="STRAX_VERIF", enable="no source hooks: all instrumentation is monkey-patched from /verif "
                   "at run time (strax is imported from /repo's working tree)",
                   baseline_off_cmd="cd /repo && /venv/bin/python -m pytest -ra -q -p no:cacheprovider --timeout=900 "
                                    "--continue-on-collection-errors",
                   source_commits=[], add_only=True),
        engines=[dict(name="vf", path="/verif/vf", serves_properties=sorted(CHECKS),
                      kind_free_text="Hypothesis-driven generated search + small-scope enumeration against reference "
                                     "models; sharded over 16 processes; controlled thread scheduler and file-system "
                                     "fault layer for schedule / crash quantifiers")],
        checks=checks,
        not_applicable=na,
        notes="Every check: exit 0 held / exit 1 with VIOLATION line / exit 2 harness error. known_findings.json lists "
              "genuine defects (fixed: with commit; known: reported as KNOWN-FINDING).",
    )
    with open(os.path.join(HERE, "MANIFEST.json"), "w") as f:
        json.dump(m, f, indent=1)
    print("checks:", [c["property_id"] for c in checks], "not_applicable:", len(na))


if __name__ == "__main__":
    main()
