"""Plugin-graph grammar (G-graph): JSON graph specs -> strax plugin classes + a pure whole-run reference.

A spec is {"nodes": [node, ...]} in topological order.  Every data type d has dtype
(time, endtime, v_<d>: int64).  Same-kind data types are row-aligned by construction, so strax may merge
them column-wise.  Node operations (deps refer to data types):

  source                      rows given by the case; v = 7*i+1
  rowwise(dep)                same kind; v = mul*v_dep + add
  merge(dep, dep2)            deps of one kind; v = v_dep + 3*v_dep2
  filter(dep)                 new kind; keeps rows with v_dep % mod == rem; v = v_dep
  multi(dep) -> (x, y)        x: same kind, v = v_dep + 11;  y: new kind, rows with v_dep % 3 != 0, v = 2*v_dep
  loop(events, things)        kind of events; v = v_events + 1000*n_contained + sum(v_things contained)
  overlap(dep; wl, wr)        same kind (needs disjoint rows); v = v_dep + sum of v_q over neighbours q != r with
                              q.time >= r.time - wl and q.endtime <= r.endtime + wr
  downchunk(dep)              same kind; v = v_dep + 5; yields one chunk per `piece` input rows
  exhaust(dep)                same kind; v = v_dep + (number of rows in the whole run)
  cut(dep)                    same kind (CutPlugin): boolean cut_<name> = v_dep % 2 == 0

The reference (`evaluate`) works on Python lists over the whole, unchunked run and calls no strax code.
"""
import collections

import numpy as np
from hypothesis import strategies as st
from immutabledict import immutabledict

import strax

RUNTIME = {}  # token -> dict(sources={(run_id, name): [(start, end, array)]}, calls=Counter, hook=callable|None)


FIELD_OF = {}  # data type -> value field name of the spec currently being run (see prepare)


def vfield(d):
    return FIELD_OF.get(d, "v_" + d)


def prepare(spec):
    """Value-field names: same-kind data types need distinct names (strax merges them column-wise), but every
    distinct dtype costs numba compilations, so names are slots v0, v1, ... numbered within a data kind."""
    FIELD_OF.clear()
    kd = kinds(spec)
    n_of_kind = collections.Counter()
    for d in all_types(spec):
        FIELD_OF[d] = f"v{n_of_kind[kd[d]]}"
        n_of_kind[kd[d]] += 1


def dtype_of(d, cut=False):
    if cut:
        return np.dtype(strax.time_fields + [("cut_" + d, np.bool_)])
    return np.dtype(strax.time_fields + [(vfield(d), np.int64)])


# ----------------------------------------------------------------------------------------------------
# spec helpers
# ----------------------------------------------------------------------------------------------------
def outputs_of(node):
    if node["op"] == "multi":
        return list(node["outs"])
    return [node["name"]]


def providers(spec):
    return {o: n for n in spec["nodes"] for o in outputs_of(n)}


def kinds(spec):
    """data type -> data kind"""
    k = {}
    for n in spec["nodes"]:
        op = n["op"]
        if op == "source":
            k[n["name"]] = "k_" + n["name"]
        elif op in ("rowwise", "merge", "overlap", "downchunk", "exhaust", "cut", "loop"):
            k[n["name"]] = k[n["deps"][0]]
        elif op == "filter":
            k[n["name"]] = "k_" + n["name"]
        elif op == "multi":
            k[n["outs"][0]] = k[n["deps"][0]]
            k[n["outs"][1]] = "k_" + n["outs"][1]
        else:
            raise ValueError(op)
    return k


def all_types(spec):
    return [o for n in spec["nodes"] for o in outputs_of(n)]


def ancestors(spec, d):
    prov = providers(spec)
    seen = set()

    def visit(x):
        for dep in prov[x].get("deps", []):
            if dep not in seen:
                seen.add(dep)
                visit(dep)

    visit(d)
    return seen


def save_when_of(node, out):
    sw = node.get("save_when", 3)
    if isinstance(sw, dict):
        return sw[out]
    return sw


# ----------------------------------------------------------------------------------------------------
# reference evaluation on whole-run lists of (time, endtime, v)
# ----------------------------------------------------------------------------------------------------
def evaluate(spec, source_rows, unit=1):
    """source_rows: {source name: [[a, b], ...]} (grid).  Returns {data type: [(t, e, v), ...]}."""
    out = {}
    for n in spec["nodes"]:
        op = n["op"]
        name = n["name"]
        deps = n.get("deps", [])
        if op == "source":
            out[name] = [(a * unit, b * unit, 7 * i + 1) for i, (a, b) in enumerate(source_rows[name])]
        elif op == "rowwise":
            out[name] = [(t, e, n["mul"] * v + n["add"]) for t, e, v in out[deps[0]]]
        elif op == "merge":
            a, b = out[deps[0]], out[deps[1]]
            assert [(x[0], x[1]) for x in a] == [(x[0], x[1]) for x in b]
            out[name] = [(x[0], x[1], x[2] + 3 * y[2]) for x, y in zip(a, b)]
        elif op == "filter":
            out[name] = [(t, e, v) for t, e, v in out[deps[0]] if v % n["mod"] == n["rem"]]
        elif op == "multi":
            src = out[deps[0]]
            out[n["outs"][0]] = [(t, e, v + 11) for t, e, v in src]
            out[n["outs"][1]] = [(t, e, 2 * v) for t, e, v in src if v % 3 != 0]
        elif op == "loop":
            ev, th = out[deps[0]], out[deps[1]]
            res = []
            for t, e, v in ev:
                inside = [q for q in th if t <= q[0] and q[1] <= e]
                res.append((t, e, v + 1000 * len(inside) + sum(q[2] for q in inside)))
            out[name] = res
        elif op == "overlap":
            src = out[deps[0]]
            wl, wr = n["w"][0] * unit, n["w"][1] * unit
            res = []
            for i, (t, e, v) in enumerate(src):
                s = v
                for j, q in enumerate(src):
                    if j != i and q[0] >= t - wl and q[1] <= e + wr:
                        s += q[2]
                res.append((t, e, s))
            out[name] = res
        elif op == "downchunk":
            out[name] = [(t, e, v + 5) for t, e, v in out[deps[0]]]
        elif op == "exhaust":
            src = out[deps[0]]
            out[name] = [(t, e, v + len(src)) for t, e, v in src]
        elif op == "cut":
            out[name] = [(t, e, int(v % 2 == 0)) for t, e, v in out[deps[0]]]
        else:
            raise ValueError(op)
    return out


def to_array(spec, d, rows):
    is_cut = providers(spec)[d]["op"] == "cut"
    x = np.zeros(len(rows), dtype_of(d, cut=is_cut))
    if rows:
        r = np.asarray(rows, dtype=np.int64)
        x["time"] = r[:, 0]
        x["endtime"] = r[:, 1]
        x["cut_" + d if is_cut else vfield(d)] = r[:, 2]
    return x


def rows_of(arr):
    """[(time, endtime, v)] of a result array (value field = the only non-time field)."""
    names = [f for f in arr.dtype.names if f not in ("time", "endtime")]
    assert len(names) == 1, arr.dtype
    return [(int(t), int(e), int(v)) for t, e, v in zip(arr["time"], arr["endtime"], arr[names[0]])]


# ----------------------------------------------------------------------------------------------------
# plugin classes
# ----------------------------------------------------------------------------------------------------
class GraphFault(Exception):
    """Dedicated exception class for injected failures; carries a token."""

    def __init__(self, token):
        super().__init__(f"injected failure {token}")
        self.token = token


def _hook(cls_self, stage, chunk_i=None, **info):
    rt = RUNTIME[cls_self._vf_token]
    rt["calls"][cls_self._vf_name] += 1
    h = rt.get("hook")
    if h is not None:
        return h(cls_self, stage, chunk_i, info)
    return None


def _attrs(node, out_names):
    a = {}
    sw = node.get("save_when", 3)
    if isinstance(sw, dict):
        a["save_when"] = immutabledict({o: strax.SaveWhen(sw[o]) for o in out_names})
    else:
        a["save_when"] = strax.SaveWhen(sw)
    ros = node.get("rechunk_on_save", True)
    if isinstance(ros, dict):
        a["rechunk_on_save"] = immutabledict(ros)
    else:
        a["rechunk_on_save"] = bool(ros)
    if node.get("target_rows") is not None:
        a["chunk_target_size_mb"] = node["target_rows"] * 24 / 1e6
    if node.get("source_rows") is not None:
        a["chunk_source_size_mb"] = node["source_rows"] * 24 / 1e6
    if node.get("rechunk_on_load"):
        a["rechunk_on_load"] = True
    if node.get("parallel"):
        a["parallel"] = node["parallel"] if node["parallel"] == "process" else True
    if node.get("allow_superrun"):
        a["allow_superrun"] = True
    if node.get("max_messages") is not None:
        a["max_messages"] = node["max_messages"]
    if node.get("version"):
        a["__version__"] = node["version"]
    if node.get("compressor"):
        a["compressor"] = node["compressor"]
    return a


def build_classes(spec, token, unit=1):
    """Return the list of plugin classes of the spec; they look their runtime data up under `token`."""
    prepare(spec)
    kd = kinds(spec)
    classes = []
    for n in spec["nodes"]:
        op, name, deps = n["op"], n["name"], tuple(n.get("deps", ()))
        outs = outputs_of(n)
        base = strax.Plugin
        body = dict(_vf_token=token, _vf_name=name, _vf_node=n, depends_on=deps,
                    provides=tuple(outs) if len(outs) > 1 else outs[0])
        body.update(_attrs(n, outs))
        if len(outs) > 1:
            body["dtype"] = {o: dtype_of(o) for o in outs}
            body["data_kind"] = immutabledict({o: kd[o] for o in outs})
        else:
            body["dtype"] = dtype_of(name, cut=(op == "cut"))
            body["data_kind"] = kd[name]

        if op == "source":
            def is_ready(self, chunk_i):
                return chunk_i < len(RUNTIME[self._vf_token]["sources"][(self.run_id, self._vf_name)])

            def source_finished(self):
                return True

            def compute(self, chunk_i):
                _hook(self, "compute", chunk_i)
                s, e, data = RUNTIME[self._vf_token]["sources"][(self.run_id, self._vf_name)][chunk_i]
                return self.chunk(start=s, end=e, data=data.copy())

            body.update(is_ready=is_ready, source_finished=source_finished, compute=compute)

        elif op in ("rowwise", "merge", "filter", "multi", "cut"):
            def compute(self, **kw):
                n_ = self._vf_node
                r = _hook(self, "compute", None, inputs=kw)
                if r is not None:
                    return r
                (x,) = kw.values()
                o = n_["op"]
                d0 = n_["deps"][0]
                if o == "rowwise":
                    res = np.zeros(len(x), self.dtype)
                    res["time"], res["endtime"] = x["time"], x["endtime"]
                    res[vfield(n_["name"])] = n_["mul"] * x[vfield(d0)] + n_["add"]
                    return res
                if o == "merge":
                    res = np.zeros(len(x), self.dtype)
                    res["time"], res["endtime"] = x["time"], x["endtime"]
                    res[vfield(n_["name"])] = x[vfield(d0)] + 3 * x[vfield(n_["deps"][1])]
                    return res
                if o == "filter":
                    y = x[x[vfield(d0)] % n_["mod"] == n_["rem"]]
                    res = np.zeros(len(y), self.dtype)
                    res["time"], res["endtime"] = y["time"], y["endtime"]
                    res[vfield(n_["name"])] = y[vfield(d0)]
                    return res
                if o == "cut":
                    res = np.zeros(len(x), self.dtype)
                    res["time"], res["endtime"] = x["time"], x["endtime"]
                    res["cut_" + n_["name"]] = x[vfield(d0)] % 2 == 0
                    return res
                if o == "multi":
                    ox, oy = n_["outs"]
                    a = np.zeros(len(x), self.dtype[ox])
                    a["time"], a["endtime"] = x["time"], x["endtime"]
                    a[vfield(ox)] = x[vfield(d0)] + 11
                    y = x[x[vfield(d0)] % 3 != 0]
                    b = np.zeros(len(y), self.dtype[oy])
                    b["time"], b["endtime"] = y["time"], y["endtime"]
                    b[vfield(oy)] = 2 * y[vfield(d0)]
                    return {ox: a, oy: b}
                raise ValueError(o)

            body["compute"] = compute

        elif op == "loop":
            base = strax.LoopPlugin
            body["loop_over"] = kd[deps[0]]

            def compute_loop(self, event, **kw):
                n_ = self._vf_node
                (things,) = kw.values()
                return {"time": event["time"], "endtime": event["endtime"],
                        vfield(n_["name"]): event[vfield(n_["deps"][0])] + 1000 * len(things)
                        + int(things[vfield(n_["deps"][1])].sum())}

            def compute(self, **kw):
                r = _hook(self, "compute", None, inputs=kw)
                if r is not None:
                    return r
                return strax.LoopPlugin.compute(self, **kw)

            body.update(compute_loop=compute_loop, compute=compute)

        elif op == "overlap":
            base = strax.OverlapWindowPlugin
            body["_vf_unit"] = unit

            def get_window_size(self):
                w = self._vf_node["w"]
                if w[0] == w[1] and self._vf_node.get("scalar_window"):
                    return w[0] * self._vf_unit
                return (w[0] * self._vf_unit, w[1] * self._vf_unit)

            def compute(self, **kw):
                n_ = self._vf_node
                r = _hook(self, "compute", None, inputs=kw)
                if r is not None:
                    return r
                (x,) = kw.values()
                wl, wr = n_["w"][0] * self._vf_unit, n_["w"][1] * self._vf_unit
                d0 = n_["deps"][0]
                res = np.zeros(len(x), self.dtype)
                res["time"], res["endtime"] = x["time"], x["endtime"]
                t, e, v = x["time"], x["endtime"], x[vfield(d0)]
                for i in range(len(x)):
                    m = (t >= t[i] - wl) & (e <= e[i] + wr)
                    res[vfield(n_["name"])][i] = v[m].sum()
                return res

            body.update(get_window_size=get_window_size, compute=compute)

        elif op == "downchunk":
            base = strax.DownChunkingPlugin

            def compute(self, start, end, **kw):
                n_ = self._vf_node
                _hook(self, "compute", None, inputs=kw)
                (x,) = kw.values()
                d0 = n_["deps"][0]
                res = np.zeros(len(x), self.dtype)
                res["time"], res["endtime"] = x["time"], x["endtime"]
                res[vfield(n_["name"])] = x[vfield(d0)] + 5
                piece = max(1, int(n_.get("piece", 2)))
                last = start
                i = 0
                while i + piece < len(res):
                    # cut after row i+piece-1 if no earlier row reaches beyond it and the next row starts later
                    j = i + piece
                    cut = int(res["endtime"][:j].max())
                    if cut <= res["time"][j] and cut >= last:
                        yield self.chunk(start=last, end=cut, data=res[i:j])
                        last = cut
                        i = j
                    else:
                        piece += 1
                yield self.chunk(start=last, end=end, data=res[i:])

            body["compute"] = compute
            body["rechunk_on_save"] = False

        elif op == "exhaust":
            base = strax.ExhaustPlugin

            def compute(self, **kw):
                n_ = self._vf_node
                r = _hook(self, "compute", None, inputs=kw)
                if r is not None:
                    return r
                (x,) = kw.values()
                res = np.zeros(len(x), self.dtype)
                res["time"], res["endtime"] = x["time"], x["endtime"]
                res[vfield(n_["name"])] = x[vfield(n_["deps"][0])] + len(x)
                return res

            body["compute"] = compute
        else:
            raise ValueError(op)
        cname = "P_" + name
        _install_mutation_points(body, base)
        cls = type(cname, (base,), body)
        _register_dynamic(token, cls)
        classes.append(cls)
    return classes


def _register_dynamic(token, cls):
    """Make the class picklable by reference across the simulated process boundary (vf.sched.scheduler)."""
    from vf.sched import scheduler
    scheduler.DYNAMIC_CLASSES[(token, cls.__name__)] = cls


def _install_mutation_points(body, base):
    """C12: let a case replace the result of the k-th compute call of one plugin (for down-chunking plugins: the
    k-th yielded chunk) by a contract-violating one, right where strax receives it (`_fix_output`).
    RUNTIME[token]["mutate"] = dict(name=node, k=index, fn=callable(plugin, result, start, end) -> result)."""
    import types as _types

    base_fix = base._fix_output

    def _fix_output(self, result, start, end, superrun, subruns, _dtype=None):
        rt = RUNTIME.get(self._vf_token) or {}
        m = rt.get("mutate")
        if m and m["name"] == self._vf_name and _dtype is None:
            if isinstance(result, _types.GeneratorType):
                orig = result

                def gen():
                    for x in orig:
                        i = rt.setdefault("yielded", collections.Counter())[self._vf_name]
                        rt["yielded"][self._vf_name] += 1
                        if i == m["k"]:
                            rt["mutated"] = True
                            x = m["fn"](self, x, start, end)
                        yield x

                result = gen()
            elif rt["calls"][self._vf_name] - 1 == m["k"]:
                rt["mutated"] = True
                result = m["fn"](self, result, start, end)
        return base_fix(self, result, start, end, superrun, subruns, _dtype=_dtype)

    body["_fix_output"] = _fix_output



# ----------------------------------------------------------------------------------------------------
# sources
# ----------------------------------------------------------------------------------------------------
def source_chunks(name, rows, cuts, t1, unit=1, t0=0):
    """[(start, end, array)] for one source of one run; rows/cuts/t1 on the grid."""
    from vf import gen

    out = []
    for a, b, idx in gen.partition(rows, t0, t1, cuts):
        x = np.zeros(len(idx), dtype_of(name))
        for k, i in enumerate(idx):
            x[k] = (rows[i][0] * unit, rows[i][1] * unit, 7 * i + 1)
        out.append((a * unit, b * unit, x))
    return out


def new_runtime(token):
    RUNTIME[token] = dict(sources={}, calls=collections.Counter(), hook=None)
    return RUNTIME[token]


def drop_runtime(token):
    RUNTIME.pop(token, None)
    from vf.sched import scheduler
    for k in [k for k in scheduler.DYNAMIC_CLASSES if k[0] == token]:
        del scheduler.DYNAMIC_CLASSES[k]


# ----------------------------------------------------------------------------------------------------
# strategy
# ----------------------------------------------------------------------------------------------------
ALL_OPS = ("rowwise", "merge", "filter", "multi", "loop", "overlap", "downchunk", "exhaust")


@st.composite
def st_graph(draw, max_nodes=6, ops=ALL_OPS, max_sources=2, save_policies=False, allow_overlapping_sources=True):
    """Graph spec with 1..max_sources sources and up to max_nodes derived nodes."""
    nodes = []
    nsrc = draw(st.integers(1, max_sources))
    kind = {}
    disjoint = {}
    withheld = {}  # data types downstream of a withholding plugin (overlap / exhaust / downchunk)
    for i in range(nsrc):
        nm = f"s{i}"
        ov = allow_overlapping_sources and draw(st.integers(0, 3)) == 0
        nodes.append(dict(name=nm, op="source", overlapping=ov))
        kind[nm] = "k_" + nm
        disjoint[nm] = not ov
    nder = draw(st.integers(1, max_nodes))
    for j in range(nder):
        types = list(kind)
        op = draw(st.sampled_from(ops))
        nm = f"n{j}"
        d0 = draw(st.sampled_from(types))
        node = None
        if op == "rowwise":
            node = dict(name=nm, op=op, deps=[d0], mul=draw(st.integers(1, 3)), add=draw(st.integers(0, 5)))
            kind[nm], disjoint[nm] = kind[d0], disjoint[d0]
        elif op == "merge":
            same = [t for t in types if kind[t] == kind[d0] and t != d0]
            if same:
                d1 = draw(st.sampled_from(same))
                node = dict(name=nm, op=op, deps=[d0, d1])
                kind[nm], disjoint[nm] = kind[d0], disjoint[d0]
        elif op == "filter":
            node = dict(name=nm, op=op, deps=[d0], mod=draw(st.integers(2, 3)), rem=draw(st.integers(0, 1)))
            kind[nm], disjoint[nm] = "k_" + nm, disjoint[d0]
        elif op == "multi":
            outs = [nm + "x", nm + "y"]
            node = dict(name=nm, op=op, deps=[d0], outs=outs)
            kind[outs[0]], disjoint[outs[0]] = kind[d0], disjoint[d0]
            kind[outs[1]], disjoint[outs[1]] = "k_" + outs[1], disjoint[d0]
        elif op == "loop":
            evs = [t for t in types if disjoint[t]]
            # favour joining the two outputs of one multi-output plugin (both siblings needed by one request)
            sib = [(m["outs"][0], m["outs"][1]) for m in nodes if m["op"] == "multi" and disjoint[m["outs"][0]]]
            if sib and draw(st.booleans()):
                ev, thing = draw(st.sampled_from(sib))
                node = dict(name=nm, op=op, deps=[ev, thing])
                kind[nm], disjoint[nm] = kind[ev], True
            elif evs:
                ev = draw(st.sampled_from(evs))
                th = [t for t in types if kind[t] != kind[ev]]
                if th:
                    node = dict(name=nm, op=op, deps=[ev, draw(st.sampled_from(th))])
                    kind[nm], disjoint[nm] = kind[ev], True
        elif op == "overlap":
            cand = [t for t in types if disjoint[t]]
            if cand:
                d0 = draw(st.sampled_from(cand))
                w = [draw(st.integers(0, 3)), draw(st.integers(0, 3))]
                node = dict(name=nm, op=op, deps=[d0], w=w, scalar_window=draw(st.booleans()))
                kind[nm], disjoint[nm] = kind[d0], True
        elif op == "downchunk":
            node = dict(name=nm, op=op, deps=[d0], piece=draw(st.integers(1, 3)))
            kind[nm], disjoint[nm] = kind[d0], disjoint[d0]
        elif op == "exhaust":
            node = dict(name=nm, op=op, deps=[d0])
            kind[nm], disjoint[nm] = kind[d0], disjoint[d0]
        if node is None:
            node = dict(name=nm, op="rowwise", deps=[d0], mul=1, add=1)
            kind[nm], disjoint[nm] = kind[d0], disjoint[d0]
        nodes.append(node)
    for n in nodes:
        outs = outputs_of(n)
        if save_policies:
            if n["op"] == "multi" and draw(st.booleans()):
                n["save_when"] = {o: draw(st.integers(0, 3)) for o in outs}
            else:
                n["save_when"] = draw(st.integers(0, 3))
        else:
            n["save_when"] = 0
        if n["op"] != "downchunk":
            n["rechunk_on_save"] = draw(st.booleans())
        n["target_rows"] = draw(st.sampled_from([None, 1, 2, 4]))
    return dict(nodes=nodes)


def has_lag(spec):
    """True if some plugin with >= 2 dependencies sits downstream of a withholding plugin (overlap, exhaust,
    downchunk) - then a small mailbox capacity may legitimately be below the chunk lag."""
    withh = set()
    for n in spec["nodes"]:
        deps = n.get("deps", [])
        w = n["op"] in ("overlap", "exhaust", "downchunk") or any(d in withh for d in deps)
        if w:
            withh.update(outputs_of(n))
    for n in spec["nodes"]:
        deps = n.get("deps", [])
        if len(deps) >= 2 and any(d in withh for d in deps):
            return True
    return False


def has_diamond(spec):
    """True if some plugin has two dependencies that share an upstream data type (one may be the other's
    ancestor).  Then both paths read one mailbox at different paces (zero-duration chunks, re-chunking by a
    multi-dependency plugin in between ...) and a small capacity can legitimately be below the chunk lag."""
    for n in spec["nodes"]:
        deps = n.get("deps", [])
        if len(deps) >= 2:
            clos = [ancestors(spec, d) | {d} for d in deps]
            for i in range(len(clos)):
                for j in range(i + 1, len(clos)):
                    if clos[i] & clos[j]:
                        return True
    return False
