"""Reference model for C02 (lineage_ref): which storage keys must be equal / must differ between two states of
a context, which stored data a (fuzzy) lookup must accept, and what the rows of every data type are.

Written from docs/source/developer/storage.rst ("the complete lineage: for the data type itself and all types it
depends on: plugin class name, version, tracked configuration"), docs/source/advanced/plugin_dev.rst (child
plugins: child options replace the parent's option, the lineage of a child additionally holds name and version of
the parent), docs/source/advanced/fuzzy_for.rst and the Option docstring (track=False: not part of the lineage).
It calls no strax code.

The plugin family (see vf/props/c02.py for the real classes):

    src --> aa --> bb
             \\--> (c1, c2)   multi-output
    src --> ch                child plugin of the class providing aa

    slot   provides    options (T = tracked, U = untracked)
    src    src         s_t T, s_u U (only changes the chunking of the source)
    a      aa          a_t T, a_u U, sh T (shared with b)
    b      bb          b_t T, sh T
    c      c1, c2      c_t T, c_u U
    ch     ch          inherits a_t, a_u, sh from its base; a_t_child T (child option replacing a_t), ch_t T

A *state* is dict(classes=[class spec...], reg={slot: index into classes}, config={option: value descriptor},
ff=[data types], ffo=[option names]).  A class spec is dict(slot, name, version, defaults={opt: vdesc}, deps=[...],
comp, base=index of the base class spec (child only)).

Values are tagged JSON descriptors (vdesc), see `build`.
"""
import hashlib
import json

import numpy as np
from immutabledict import immutabledict

SLOTS = ["src", "a", "b", "c", "ch"]
PROVIDES = {"src": ["src"], "a": ["aa"], "b": ["bb"], "c": ["c1", "c2"], "ch": ["ch"]}
TYPES = ["src", "aa", "bb", "c1", "c2", "ch"]
SLOT_OF = {t: s for s, ts in PROVIDES.items() for t in ts}
# own options of each slot: name -> tracked?
OWN_OPTIONS = {
    "src": {"s_t": True, "s_u": False},
    "a": {"a_t": True, "a_u": False, "sh": True},
    "b": {"b_t": True, "sh": True},
    "c": {"c_t": True, "c_u": False},
    "ch": {"a_t_child": True, "ch_t": True},
}
CHILD_OVERRIDES = {"a_t_child": "a_t"}  # child option -> parent option it replaces
ALL_OPTIONS = ["s_t", "s_u", "a_t", "a_u", "sh", "b_t", "c_t", "c_u", "a_t_child", "ch_t", "zz_free"]
DEP_CHOICES = {"src": [[]], "a": [["src"]], "b": [["aa"], ["src"]], "c": [["aa"], ["bb"], ["src"]], "ch": [["src"]]}
NAMES = {"src": ["Src", "SrcAlt"], "a": ["PlugA", "PlugA2"], "b": ["PlugB", "PlugB2"], "c": ["PlugC", "PlugC2"],
         "ch": ["Child", "Child2"]}
VERSIONS = ["0.0.1", "0.0.2", "1.0", "7"]
COMPRESSORS = ["blosc", "zstd", "lz4", "bz2"]
BASE_DEFAULTS = {"s_t": 1, "s_u": 0, "a_t": 2, "a_u": 0, "sh": 3, "b_t": 4, "c_t": 5, "c_u": 0, "a_t_child": 6,
                 "ch_t": 7}
N_ROWS = 6
MOD = 2 ** 40


# ----------------------------------------------------------------------------------------------------
# values
# ----------------------------------------------------------------------------------------------------
def V(x):
    """vdesc of a plain JSON-native python value (ints, floats, strs, bools, None, lists, tuples, dicts)."""
    if isinstance(x, bool):
        return {"k": "bool", "v": x}
    if isinstance(x, int):
        return {"k": "int", "v": x}
    if isinstance(x, float):
        return {"k": "float", "v": x}
    if isinstance(x, str):
        return {"k": "str", "v": x}
    if x is None:
        return {"k": "none"}
    if isinstance(x, tuple):
        return {"k": "tuple", "v": [V(y) for y in x]}
    if isinstance(x, list):
        return {"k": "list", "v": [V(y) for y in x]}
    if isinstance(x, dict):
        return {"k": "dict", "v": [[k, V(y)] for k, y in x.items()]}
    raise TypeError(type(x))


def build(d, order=None):
    """The real python object of a value descriptor.  `order`: optional np.random.RandomState used to permute the
    insertion order of every (nested) dict."""
    k = d["k"]
    if k in ("int", "float", "str", "bool"):
        return d["v"]
    if k == "none":
        return None
    if k == "tuple":
        return tuple(build(x, order) for x in d["v"])
    if k == "list":
        return [build(x, order) for x in d["v"]]
    if k in ("dict", "imm"):
        items = list(d["v"])
        if order is not None:
            items = [items[i] for i in order.permutation(len(items))]
        out = {kk: build(x, order) for kk, x in items}
        return immutabledict(out) if k == "imm" else out
    if k == "np":
        return np.dtype(d["t"]).type(d["v"])
    if k == "arr":
        return np.array(d["v"], dtype=d["t"])
    raise ValueError(d)


def json_native(d):
    """True when the value can be written into the metadata of stored data (plain json)."""
    k = d["k"]
    if k in ("int", "float", "str", "bool", "none"):
        return True
    if k in ("tuple", "list"):
        return all(json_native(x) for x in d["v"])
    if k == "dict":
        return all(json_native(x) for _, x in d["v"])
    if k == "np":
        return d["t"] == "float64"  # a subclass of float
    return False


def has_tuple(d):
    k = d["k"]
    if k == "tuple":
        return True
    if k == "list":
        return any(has_tuple(x) for x in d["v"])
    if k in ("dict", "imm"):
        return any(has_tuple(x) for _, x in d["v"])
    return False


def strict(d):
    """Canonical form under which two values are certainly THE SAME value: same types throughout, same content;
    dict insertion order is irrelevant."""
    k = d["k"]
    if k in ("int", "str", "bool"):
        return [k, d["v"]]
    if k == "float":
        return [k, repr(float(d["v"]))]
    if k == "none":
        return [k]
    if k in ("tuple", "list"):
        return [k, [strict(x) for x in d["v"]]]
    if k in ("dict", "imm"):
        return [k, sorted([kk, strict(x)] for kk, x in d["v"])]
    if k == "np":
        return [k, d["t"], repr(d["v"])]
    if k == "arr":
        return [k, d["t"], json.dumps(d["v"])]
    raise ValueError(d)


def _num_eq(x):
    # python equality of numbers: True == 1 == 1.0, -0.0 == 0.0
    if isinstance(x, bool):
        x = int(x)
    if isinstance(x, float) and x == int(x) and abs(x) < 2 ** 53:
        x = int(x)
    return ["num", repr(x)]


def _num(x):
    """Numbers are kept apart by KIND (bool / int / float): a plugin can tell True, 1 and 1.0 apart (and the
    harness plugins do), so a brand-new context computes different rows for them and their keys must differ.
    Only -0.0 / 0.0 are not told apart."""
    if isinstance(x, bool):
        return ["bool", repr(x)]
    if isinstance(x, float):
        return ["float", repr(x + 0.0 if x != 0 else 0.0)]
    return ["int", repr(x)]


def loose(d):
    """Canonical form under which two values are certainly DIFFERENT when the forms differ: numbers by kind
    (bool / int / float; numpy scalars by the kind and exact value json gives them) and value, list = tuple =
    array, dict = immutabledict."""
    k = d["k"]
    if k in ("int", "float", "bool"):
        return _num({"int": int, "float": float, "bool": bool}[k](d["v"]))
    if k == "str":
        return ["str", d["v"]]
    if k == "none":
        return ["none"]
    if k in ("tuple", "list"):
        return ["seq", [loose(x) for x in d["v"]]]
    if k in ("dict", "imm"):
        return ["map", sorted([kk, loose(x)] for kk, x in d["v"])]
    if k == "np":
        v = np.dtype(d["t"]).type(d["v"])
        return _num(float(v) if np.dtype(d["t"]).kind == "f" else int(v))
    if k == "arr":
        def rec(x):
            if isinstance(x, list):
                return ["seq", [rec(y) for y in x]]
            v = np.dtype(d["t"]).type(x)
            return _num(float(v) if np.dtype(d["t"]).kind == "f" else int(v))
        return rec(d["v"])
    raise ValueError(d)


def loose_eq(d):
    """`loose` with numbers compared by python equality (True == 1 == 1.0): what a comparison of json-decoded
    lineages with == (fuzzy matching) cannot tell apart."""
    def rec(f):
        if isinstance(f, list) and len(f) == 2 and f[0] in ("bool", "int", "float") and isinstance(f[1], str):
            v = eval(f[1], {"inf": float("inf"), "nan": float("nan")})  # repr of a bool / int / float
            return _num_eq(v)
        if isinstance(f, list):
            return [rec(y) for y in f]
        return f
    return rec(loose(d))


def loose_of_object(x):
    """`loose` of a real python object (used by the plugins' compute on the values strax hands them)."""
    if isinstance(x, (bool, np.bool_)):
        return _num(bool(x))
    if isinstance(x, (np.integer,)):
        return _num(int(x))
    if isinstance(x, (np.floating,)):
        return _num(float(x))
    if isinstance(x, (int, float)):
        return _num(x)
    if isinstance(x, str):
        return ["str", x]
    if x is None:
        return ["none"]
    if isinstance(x, np.ndarray):
        return loose_of_object(x.tolist())
    if isinstance(x, (tuple, list)):
        return ["seq", [loose_of_object(y) for y in x]]
    if isinstance(x, (dict, immutabledict)):
        return ["map", sorted([kk, loose_of_object(y)] for kk, y in x.items())]
    raise TypeError(type(x))


def sig(*parts):
    """31-bit number derived from canonical parts; rows depend on it."""
    s = json.dumps(parts, sort_keys=True)
    return int(hashlib.sha1(s.encode()).hexdigest()[:8], 16) >> 1


# ----------------------------------------------------------------------------------------------------
# states
# ----------------------------------------------------------------------------------------------------
def base_class_spec(slot, classes=None):
    own = OWN_OPTIONS[slot]
    spec = dict(slot=slot, name=NAMES[slot][0], version=VERSIONS[0],
                defaults={o: V(BASE_DEFAULTS[o]) for o in own}, deps=list(DEP_CHOICES[slot][0]), comp="blosc")
    return spec


def options_of(state, ci):
    """{option name: (tracked, default vdesc)} of class ci, inherited ones included."""
    spec = state["classes"][ci]
    out = {}
    if spec["slot"] == "ch":
        out.update(options_of(state, spec["base"]))
    for o, tr in OWN_OPTIONS[spec["slot"]].items():
        out[o] = (tr, spec["defaults"][o])
    return out


def effective(state, ci):
    """{option: vdesc} the plugin instance of class ci works with (config value, else default; child options
    replace the parent's option)."""
    opts = options_of(state, ci)
    eff = {o: state["config"].get(o, dflt) for o, (tr, dflt) in opts.items()}
    if state["classes"][ci]["slot"] == "ch":
        for co, po in CHILD_OVERRIDES.items():
            eff[po] = eff[co]
    return eff


def entry(state, ci):
    """Own lineage entry of class ci: (class name, version, {tracked option: vdesc}, [(parent name, version)])."""
    spec = state["classes"][ci]
    opts = options_of(state, ci)
    eff = effective(state, ci)
    overridden = set(CHILD_OVERRIDES.values()) if spec["slot"] == "ch" else set()
    tracked = {o: eff[o] for o, (tr, _) in opts.items() if tr and o not in overridden}
    parents = []
    if spec["slot"] == "ch":
        b = state["classes"][spec["base"]]
        parents = [[b["name"], b["version"]]]
    return dict(name=spec["name"], version=spec["version"], opts=tracked, parents=parents)


def ancestors_slots(state, slot, seen=None):
    """slot and the slots of everything it (transitively) depends on, following the registered classes."""
    seen = [] if seen is None else seen
    if slot in seen:
        return seen
    seen.append(slot)
    for dep in state["classes"][state["reg"][slot]]["deps"]:
        ancestors_slots(state, SLOT_OF[dep], seen)
    return seen


def lineage(state, t):
    """{slot: entry} for data type t and all its ancestors."""
    return {s: entry(state, state["reg"][s]) for s in ancestors_slots(state, SLOT_OF[t])}


def filter_lineage(lin, ff_slots=(), ffo=()):
    return {s: dict(e, opts={o: v for o, v in e["opts"].items() if o not in ffo})
            for s, e in lin.items() if s not in ff_slots}


def canon(lin, how):
    """Canonical JSON string of a (filtered) lineage under `strict` or `loose` value identity."""
    return json.dumps({s: [e["name"], e["version"], {o: how(v) for o, v in e["opts"].items()}, e["parents"]]
                       for s, e in lin.items()}, sort_keys=True)


def lineage_has_tuple(lin):
    return any(has_tuple(v) for e in lin.values() for v in e["opts"].values())


def storable(lin):
    return all(json_native(v) for e in lin.values() for v in e["opts"].values())


def ff_slots(state, ff):
    return sorted({SLOT_OF[t] for t in ff})


def match3(stored_lin, desired_lin, ffs, ffo):
    """'yes' / 'no' / 'either': must stored data of lineage stored_lin be accepted for desired_lin?"""
    a, b = filter_lineage(stored_lin, ffs, ffo), filter_lineage(desired_lin, ffs, ffo)
    if canon(a, strict) == canon(b, strict):
        return "yes"
    if canon(a, loose_eq) != canon(b, loose_eq):
        return "no"
    return "either"


# ----------------------------------------------------------------------------------------------------
# rows
# ----------------------------------------------------------------------------------------------------
def source_rows(sig_src):
    return [(10 * i, 10 * i + 5, (7 * i + sig_src) % MOD) for i in range(N_ROWS)]


def rows_per_chunk(s_u_loose):
    return 1 + sig("chunking", s_u_loose) % 3


def apply_plugin(slot, t, name, version, eff_loose, parents, rows):
    """Rows of data type t given the rows of the single dependency (`rows` is None for the source).  eff_loose:
    {option: loose form of the value the plugin works with}."""
    if slot == "src":
        return source_rows(sig("src", name, version, eff_loose["s_t"]))
    if slot in ("a", "ch"):
        s = sig("a", name, version, eff_loose["a_t"], eff_loose["sh"])
        out = [(t0, t1, (x * 3 + s) % MOD) for t0, t1, x in rows]
        if slot == "ch":
            s2 = sig("ch", eff_loose["ch_t"], parents)
            out = [(t0, t1, (x * 5 + s2) % MOD) for t0, t1, x in out]
        return out
    if slot == "b":
        s = sig("b", name, version, eff_loose["b_t"], eff_loose["sh"])
        return [(t0, t1, (x * 11 + s) % MOD) for t0, t1, x in rows]
    if slot == "c":
        s = sig("c", name, version, eff_loose["c_t"])
        if t == "c1":
            return [(t0, t1, (x * 13 + s) % MOD) for t0, t1, x in rows]
        return [(t0, t1, (x * 17 + s + 1) % MOD) for t0, t1, x in rows]
    raise ValueError(slot)


def compute_from(state, t, dep_rows):
    ci = state["reg"][SLOT_OF[t]]
    spec = state["classes"][ci]
    e = entry(state, ci)
    eff = {o: loose(v) for o, v in effective(state, ci).items()}
    return apply_plugin(spec["slot"], t, spec["name"], spec["version"], eff, e["parents"], dep_rows)


def rows_of(state, t):
    """Whole-run rows of t computed from scratch under `state`."""
    spec = state["classes"][state["reg"][SLOT_OF[t]]]
    dep_rows = rows_of(state, spec["deps"][0]) if spec["deps"] else None
    return compute_from(state, t, dep_rows)


# ----------------------------------------------------------------------------------------------------
# state manipulation (the model side of the operations)
# ----------------------------------------------------------------------------------------------------
OWN_TRACKED = {"src": ["s_t"], "a": ["a_t"], "b": ["b_t"], "c": ["c_t"], "ch": ["a_t_child", "ch_t"]}


def initial_state(child=True):
    state = dict(classes=[], reg={}, config={}, ff=[], ffo=[])
    for slot in SLOTS:
        if slot == "ch" and not child:
            continue
        spec = base_class_spec(slot)
        if slot == "ch":
            spec["base"] = state["reg"]["a"]
        state["classes"].append(spec)
        state["reg"][slot] = len(state["classes"]) - 1
    return state


def copy_state(state):
    return json.loads(json.dumps(state))


def registered_types(state):
    return [t for t in TYPES if SLOT_OF[t] in state["reg"]]


def variant_spec(state, slot, change):
    """Class spec for a new class object for `slot`: the registered one (or the base spec) with `change` applied."""
    if slot in state["reg"]:
        spec = json.loads(json.dumps(state["classes"][state["reg"][slot]]))
    else:
        spec = base_class_spec(slot)
        spec["base"] = state["reg"]["a"]
    if "name" in change:
        spec["name"] = NAMES[slot][change["name"] % len(NAMES[slot])]
    if "version" in change:
        spec["version"] = VERSIONS[change["version"] % len(VERSIONS)]
    if "default" in change:
        opts = OWN_TRACKED[slot]
        spec["defaults"][opts[change.get("dopt", 0) % len(opts)]] = change["default"]
    if "deps" in change:
        ch = DEP_CHOICES[slot]
        spec["deps"] = list(ch[change["deps"] % len(ch)])
    if "comp" in change:
        spec["comp"] = COMPRESSORS[change["comp"] % len(COMPRESSORS)]
    if slot == "ch" and change.get("rebase"):
        spec["base"] = state["reg"]["a"]
    return spec


def default_conflict(state, spec):
    """Would registering `spec` put two registered classes with different defaults for one option name into the
    registry?  (Context.register documents a ValueError for that.)"""
    tmp = dict(state, classes=state["classes"] + [spec])
    new_opts = options_of(tmp, len(tmp["classes"]) - 1)
    for slot, ci in state["reg"].items():
        if slot == spec["slot"]:
            continue
        for o, (_, dflt) in options_of(state, ci).items():
            if o in new_opts and strict(new_opts[o][1]) != strict(dflt):
                return True
    return False


def do_register(state, spec):
    state["classes"].append(spec)
    state["reg"][spec["slot"]] = len(state["classes"]) - 1
    return len(state["classes"]) - 1


def do_set_config(state, items, mode="update"):
    if mode == "replace":
        state["config"] = {}
    for o, v in items:
        if mode == "setdefault" and o in state["config"]:
            continue
        state["config"][o] = v


def all_keys_canon(state, how):
    return {t: canon(lineage(state, t), how) for t in registered_types(state)}

