"""C17 reference model: direct (quadratic) evaluation of the definitions of strax' interval primitives.

Everything works on plain Python lists of (start, end) integer pairs (end exclusive) and never imports
strax.  Written from the docstrings of strax/processing/general.py and strax/sort_enforcement.py.
"""


def fully_contained_in(things, containers):
    """For each thing the index of the (first) container [c0, c1) with c0 <= start and end <= c1, else -1."""
    out = []
    for a, b in things:
        idx = [j for j, (c0, c1) in enumerate(containers) if c0 <= a and b <= c1]
        out.append(idx[0] if idx else -1)
    return out


def split_by_containment(things, containers):
    """For each container the list of indices of the things it contains (in input order)."""
    which = fully_contained_in(things, containers)
    return [[i for i, k in enumerate(which) if k == j] for j in range(len(containers))]


def touching(things, container, window=0):
    """Indices of the things that extend to within `window` of the container: the distance between the
    two half-open intervals is smaller than window (window 0: they share at least one sample)."""
    c0, c1 = container
    return [i for i, (a, b) in enumerate(things) if b > c0 - window and a < c1 + window]


def overlap_indices(a1, n_a, b1, n_b):
    """Overlap of the integer ranges [a1, a1+n_a) and [b1, b1+n_b) in coordinates relative to a1 and b1."""
    common = sorted(set(range(a1, a1 + n_a)) & set(range(b1, b1 + n_b)))
    if not common:
        return (0, 0), (0, 0)
    lo, hi = common[0], common[-1] + 1
    return (lo - a1, hi - a1), (lo - b1, hi - b1)


def diff(rows):
    """Gap between the start of row i+1 and the latest end of all rows up to i (negative: overlap)."""
    return [rows[i + 1][0] - max(e for _, e in rows[: i + 1]) for i in range(len(rows) - 1)]


class NoBreak(Exception):
    pass


def find_break_i(rows, safe_break, not_before=0):
    """First index i >= 1 such that row i starts at least safe_break after everything before it has
    ended (and after not_before)."""
    for i in range(1, len(rows)):
        latest = max([not_before] + [e for _, e in rows[:i]])
        if rows[i][0] >= latest + safe_break:
            return i
    raise NoBreak


def time_to_prev_next(things, intervals):
    """(to_prev, to_next) per thing: distance from the thing's start back to the end of the nearest interval
    that ended before it, and from its end to the start of the nearest interval beginning after it; -1 if
    there is none."""
    prev, nxt = [], []
    for a, b in things:
        p = [a - e for s, e in intervals if e <= a and s < a]
        n = [s - b for s, e in intervals if s >= b]
        prev.append(min(p) if p else -1)
        nxt.append(min(n) if n else -1)
    return prev, nxt


def sort_order(times, channels=None):
    """Stable order by time (then channel): Python's sorted is stable, so ties keep input order."""
    if channels is None:
        return sorted(range(len(times)), key=lambda i: times[i])
    return sorted(range(len(times)), key=lambda i: (times[i], channels[i]))


def argsort_stable(values):
    return sorted(range(len(values)), key=lambda i: values[i])
