"""Naive reference models for C19 (peak clustering, summing, merging, splitting, waveform helpers).

Everything here is plain Python / numpy written from the docstrings and the property statement; nothing
imports strax.  Exact arithmetic (fractions.Fraction) is used where a float tie would make the expected
value ambiguous; the callers then accept either side of the tie.
"""
from fractions import Fraction

import numpy as np


# ------------------------------------------------------------------------------------------------
# find_peaks: gap-threshold clustering with the duration rule
# ------------------------------------------------------------------------------------------------
def clusterings(hits, gap, le, re, maxdur):
    """All acceptable clusterings of `hits` = [(t0, t1, channel, area), ...] (sorted by t0).

    Walk left to right with the running maximum end `cend` of the open cluster:
      * next hit starts >= gap after cend          -> new cluster            ('far')
      * else: merged span (incl. extensions) would exceed maxdur -> must split ('dur')
      * else: merged span <= maxdur but the implementation's conservative estimate
              (end of the next hit - first start + 2*le + re) exceeds it    -> either ('band')
      * else must merge.
    Returns a list of (clusters, boundaries): clusters = list of lists of hit indices,
    boundaries = list of (kind, index of the first hit of the new cluster, cend of the old cluster).
    """
    out = []

    def rec(i, cur, cend, done, bounds):
        if i == len(hits):
            out.append((done + [cur], bounds))
            return
        t0, t1 = hits[i][0], hits[i][1]
        first = hits[cur[0]][0]
        if t0 - cend >= gap:
            rec(i + 1, [i], t1, done + [cur], bounds + [("far", i, cend)])
            return
        true_merged = max(cend, t1) + re - (first - le)
        conservative = t1 - first + 2 * le + re
        if true_merged > maxdur:
            rec(i + 1, [i], t1, done + [cur], bounds + [("dur", i, cend)])
            return
        if conservative > maxdur:
            rec(i + 1, [i], t1, done + [cur], bounds + [("band", i, cend)])
        rec(i + 1, cur + [i], max(cend, t1), done, bounds)

    if hits:
        rec(1, [0], hits[0][1], [], [])
    return out


def peaks_of(hits, clusters, le, re, to_pe, n_ch, min_area, min_channels):
    """Expected peaks (after the area / channel cuts) of one clustering: list of dicts."""
    res = []
    for cl in clusters:
        apc = np.zeros(n_ch, dtype=np.float64)
        for i in cl:
            apc[hits[i][2]] += float(np.float32(hits[i][3])) * float(to_pe[hits[i][2]])
        area = float(apc.sum())
        res.append(dict(
            time=hits[cl[0]][0] - le,
            endtime=max(hits[i][1] for i in cl) + re,
            n_hits=len(cl), area=area, apc=apc, members=list(cl),
            # how far the area is from the cut (to recognise float32 ties)
            keep_area=area >= min_area, keep_ch=int((apc != 0).sum()) >= min_channels,
            max_gap=_max_gap(hits, cl),
        ))
    return res


def _max_gap(hits, cl):
    g = 0
    cend = hits[cl[0]][1]
    for i in cl[1:]:
        g = max(g, hits[i][0] - cend)
        cend = max(cend, hits[i][1])
    return g


# ------------------------------------------------------------------------------------------------
# store_downsampled_waveform (docstring: shorten, never extend)
# ------------------------------------------------------------------------------------------------
def downsample(wave, n_buf):
    """(data, new_length, factor): `wave` (full resolution, len = peak length) squeezed into n_buf samples."""
    L = len(wave)
    f = -(-L // n_buf)
    if f <= 1:
        return np.asarray(wave, dtype=np.float64), L, 1
    nl = L // f
    return np.asarray(wave[: nl * f], dtype=np.float64).reshape(nl, f).sum(axis=1), nl, f


# ------------------------------------------------------------------------------------------------
# moving average
# ------------------------------------------------------------------------------------------------
def sma(a, w):
    """out[i] = mean of a[max(0, i-w) : i+w+1]  (window of 2w+1 centred on i, truncated at the edges)."""
    a = np.asarray(a, dtype=np.float64)
    return np.array([a[max(0, i - w): i + w + 1].mean() for i in range(len(a))], dtype=np.float64)


# ------------------------------------------------------------------------------------------------
# natural breaks goodness of split
# ------------------------------------------------------------------------------------------------
def ssd(w, normalize=False):
    """Weighted sum of squared deviations of the sample index, weights = max(w, 0)."""
    w = np.maximum(np.asarray(w, dtype=np.float64), 0)
    if w.sum() == 0:
        return 0.0
    idx = np.arange(len(w), dtype=np.float64)
    mean = (w * idx).sum() / w.sum()
    s = (w * (idx - mean) ** 2).sum()
    return s / w.sum() if normalize else s


def gof(w, normalize=False, split_low=False, filter_n=0, sma_fn=sma):
    """gof[i] = 1 - (f(w[:i+1]) + f(w[i:])) / f(w);  times (1 - filtered/max(filtered)) if split_low."""
    w = np.asarray(w, dtype=np.float64)
    n = len(w)
    tot = ssd(w, normalize)
    g = np.array([1 - (ssd(w[: i + 1], normalize) + ssd(w[i:], normalize)) / tot for i in range(n)])
    if split_low:
        fw = sma_fn(w, filter_n) if filter_n > 0 else w
        g = g * (1 - fw / fw.max())
    return g


# ------------------------------------------------------------------------------------------------
# area fractions
# ------------------------------------------------------------------------------------------------
def x_min(data, a):
    """Smallest (fractional) index x with A(x) >= a, A(x) = area of data left of x (linear inside a
    sample).  a <= 0 -> 0;  a beyond the total -> len(data)."""
    if a <= 0:
        return 0.0
    seen = 0.0
    for i, d in enumerate(data):
        d = float(d)
        if d > 0 and seen + d >= a:
            return i + (a - seen) / d
        seen += d
    return float(len(data))


def fraction_band(data, f, eps):
    """[lo, hi] of admissible answers for "index at which the area fraction f is reached"; the band has
    zero width except on plateaus of the cumulative area (zero samples), where a float tie decides."""
    tot = float(np.sum(data))
    return x_min(data, f * tot - eps * tot), x_min(data, f * tot + eps * tot)


def center_time_exact(time, dt, data, length):
    """time + floor((sum(i*d)/sum(d) + 1/2) * dt), clipped to [time, endtime];  zero area -> time.
    Returns (value, near_integer) - the latter flags a float tie of the floor."""
    d = [Fraction(float(x)) for x in data[:length]]
    s = sum(d)
    if s == 0:
        return time, False
    t = sum(i * x for i, x in enumerate(d)) / s
    v = (t + Fraction(1, 2)) * dt
    fl = v.numerator // v.denominator
    frac = float(v - fl)
    near = frac < 1e-6 or frac > 1 - 1e-6
    c = min(max(time + fl, time), time + length * dt)
    return c, near


# ------------------------------------------------------------------------------------------------
# highest density region (water level definition)
# ------------------------------------------------------------------------------------------------
def intervals_of(mask):
    out = []
    i = 0
    n = len(mask)
    while i < n:
        if mask[i]:
            j = i
            while j < n and mask[j]:
                j += 1
            out.append((i, j))
            i = j
        else:
            i += 1
    return out


def hdr(data, fd, only_upper_part):
    """Highest density region for the fraction fd.

    only_upper_part: the water level h with sum(max(d - h, 0)) = fd * total; region = {d > h}.
    otherwise: the highest data level L such that the samples strictly above L hold >= fd of the
    total; region = {d > L}; all samples if no such level exists.
    Returns (list of acceptable interval lists, amplitude or None)."""
    d = [Fraction(float(x)) for x in data]
    n = len(d)
    tot = sum(d)
    fdq = Fraction(float(fd))
    levels = sorted(set(d), reverse=True)
    alts = []
    amp = None
    tol = Fraction(1, 10 ** 6)  # float32 arithmetic inside: a fraction this close to fd is a tie
    for L in levels[1:]:
        top = [x for x in d if x > L]
        j = len(top)
        S = sum(top)
        seen = (S - j * L) / tot if only_upper_part else S / tot
        if seen >= fdq - tol:
            if amp is None:
                amp = (S - fdq * tot) / j
            alts.append(intervals_of([x > L for x in d]))
            if seen > fdq + tol:
                break
    else:
        alts.append([(0, n)])
        if amp is None:
            amp = (1 - fdq) * tot / n
    return alts, float(amp)


# ------------------------------------------------------------------------------------------------
# merging
# ------------------------------------------------------------------------------------------------
def gcd_list(v):
    import math
    g = 0
    for x in v:
        g = math.gcd(g, int(x))
    return g


def merged_wave(peaks, n_buf):
    """peaks: list of dicts(time, dt, length, data).  Waveform of the merged peak: every constituent
    up-sampled to the common dt (value / factor so that the area is conserved), placed at its time
    offset, then squeezed into n_buf samples.  Returns (data, length, dt)."""
    c = gcd_list([p["dt"] for p in peaks])
    t0 = peaks[0]["time"]
    end = peaks[-1]["time"] + peaks[-1]["length"] * peaks[-1]["dt"]
    L = (end - t0) // c
    dense = np.zeros(max(L, 1) + 64, dtype=np.float64)
    for p in peaks:
        up = p["dt"] // c
        i0 = (p["time"] - t0) // c
        dense[i0: i0 + p["length"] * up] = np.repeat(np.asarray(p["data"][: p["length"]], dtype=np.float64), up) / up
    data, nl, f = downsample(dense[:L], n_buf)
    return data, nl, c * f
