"""pulses_ref - deliberately naive reference models for C18 (hit finding, record links, data reduction,
baselining, integration).  Written from the docstrings / dtype comments of strax.processing.pulse_processing,
strax.processing.data_reduction and strax.dtypes; no strax code is called here.

Records are numpy structured arrays of strax.record_dtype(samples_per_record); everything is computed with
Python ints / floats, one sample at a time.
"""
import math

import numpy as np

NO_LINK = -1
HITS_ONLY = 2  # strax.ReductionLevel.HITS_ONLY: "Samples far from a threshold excursion were removed"


def per_channel(v, ch):
    """Threshold argument -> value for channel ch (scalars hold for every channel)."""
    if isinstance(v, (list, tuple, np.ndarray)):
        return float(v[ch])
    return float(v)


def frac(baseline):
    """Fractional part of the stored (float32) baseline."""
    return float(np.float32(baseline)) % 1.0


def threshold(rec, min_amplitude, min_height_over_noise=0):
    """max(amplitude threshold of the channel, noise-scaled threshold of this record)."""
    ch = int(rec["channel"])
    return max(per_channel(min_amplitude, ch),
               float(rec["baseline_rms"]) * per_channel(min_height_over_noise, ch))


def find_hits(records, min_amplitude, min_height_over_noise=0):
    """Hits = maximal runs of consecutive samples (inside the first `length` samples of one record) that are
    >= the threshold.  Returns a list of dicts in (record, position) order."""
    out = []
    for ri, rec in enumerate(records):
        th = threshold(rec, min_amplitude, min_height_over_noise)
        n = int(rec["length"])
        d = [int(v) for v in rec["data"][:n]]
        dt = int(rec["dt"])
        t0 = int(rec["time"])
        fp = frac(rec["baseline"])
        i = 0
        while i < n:
            if not d[i] >= th:
                i += 1
                continue
            j = i
            while j < n and d[j] >= th:
                j += 1
            seg = d[i:j]
            m = max(seg)
            out.append(dict(
                time=t0 + i * dt,
                length=j - i,
                dt=dt,
                channel=int(rec["channel"]),
                left=i,
                right=j,
                record_i=ri,
                # "Integral [ADC x samples]" of the true (float baseline) waveform
                area=sum(seg) + (j - i) * fp,
                # "Maximum amplitude above baseline"
                height=m + fp,
                # "Time when hit reach maximum amplitude": the first sample attaining the maximum
                max_time=t0 + (i + seg.index(m)) * dt,
                threshold=th,
            ))
            i = j
    return out


def record_links(records):
    """(prev, next): j -> i are linked iff they are consecutive fragments of one pulse in one channel:
    same channel, fragment numbers k and k+1, same pulse length, and i starts exactly where the (full)
    record j ends."""
    n = len(records)
    prev = [NO_LINK] * n
    nxt = [NO_LINK] * n
    if not n:
        return prev, nxt
    spr = records["data"].shape[1]
    for i in range(n):
        for j in range(n):
            if j == i:
                continue
            a, b = records[j], records[i]
            if (int(a["channel"]) == int(b["channel"])
                    and int(b["record_i"]) == int(a["record_i"]) + 1
                    and int(a["pulse_length"]) == int(b["pulse_length"])
                    and int(b["time"]) == int(a["time"]) + spr * int(a["dt"])):
                prev[i] = j
                nxt[j] = i
    return prev, nxt


def cut_outside_hits(records, hits, left_extension, right_extension, links=None):
    """Expected `data` after the reduction: a sample survives iff its position in the pulse lies in
    [left - left_extension, right + right_extension) of some hit, and it sits in the hit's fragment or in a
    fragment linked to it; everything else is 0.  `hits`: iterable of mappings with record_i, left, right."""
    data = np.asarray(records["data"])
    n, spr = data.shape
    prev, nxt = links if links is not None else record_links(records)
    keep = [[False] * spr for _ in range(n)]
    for h in hits:
        ri = int(h["record_i"])
        for s in range(int(h["left"]) - left_extension, int(h["right"]) + right_extension):
            if 0 <= s < spr:
                keep[ri][s] = True
            elif -spr <= s < 0:
                if prev[ri] != NO_LINK:
                    keep[prev[ri]][s + spr] = True
            elif spr <= s < 2 * spr:
                if nxt[ri] != NO_LINK:
                    keep[nxt[ri]][s - spr] = True
    keep = np.array(keep, dtype=bool).reshape(n, spr)
    return np.where(keep, data, 0).astype(data.dtype), keep


class MissingFirstFragment(Exception):
    pass


def baseline(raw, baseline_samples, flip=True, allow_sloppy_chunking=False, fallback_baseline=16000):
    """Per record: (expected data, baseline, rms).  Baseline of a pulse = mean of the first baseline_samples
    samples of its first fragment (rms = their standard deviation); later fragments take the last baseline seen
    in their channel; a fragment whose channel has not shown a first fragment yet uses the fallback (rms NaN)
    if that is allowed, else it is an error.  data = +-(data - int(baseline)) on the first `length` samples."""
    last = {}
    out = []
    sign = -1 if flip else 1
    for rec in raw:
        ch = int(rec["channel"])
        n = int(rec["length"])
        if int(rec["record_i"]) == 0:
            w = [int(v) for v in rec["data"][:baseline_samples]]
            mean = sum(w) / len(w)
            rms = math.sqrt(sum((v - mean) ** 2 for v in w) / len(w))
            last[ch] = (float(np.float32(mean)), float(np.float32(rms)))
            bl, rms = last[ch]
            bl_int = int(bl)  # dtype comment: "data = int(baseline) - data_orig" with the stored baseline
        elif ch in last:
            bl, rms = last[ch]
            bl_int = int(bl)
        else:
            if not allow_sloppy_chunking:
                raise MissingFirstFragment()
            bl, rms = float(fallback_baseline), float("nan")
            bl_int = int(fallback_baseline)
        d = [int(v) for v in rec["data"]]
        for i in range(n):
            d[i] = sign * (d[i] - bl_int)
        out.append((d, bl, rms))
    return out


def integrate(rec):
    """area = sum of the samples x 2**amplitude_bit_shift + the fractional part of the baseline x number of
    samples, rounded to an integer ("int(round())", Python semantics)."""
    n = int(rec["length"])
    s = sum(int(v) for v in rec["data"][:n])
    return s * 2 ** int(rec["amplitude_bit_shift"]) + int(round(frac(rec["baseline"]) * n))
