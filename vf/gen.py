"""Shared generators (Hypothesis strategies producing plain-JSON descriptors) and array builders.

Sound first: rows sorted by time, every row of positive duration, chunk cuts only at admissible
times (no row straddled).  Construction, never rejection.
"""
import numpy as np
from hypothesis import strategies as st

UNITS = [1, 7, 500, 1000, 1001, 250_000_000]


@st.composite
def st_rows(draw, max_n=8, mode="any", max_len=4, max_gap=3, first_max=2):
    """List of [start, end] on an integer grid, sorted by start.

    mode: "disjoint" (gap >= 0), "overlap" (negative gaps allowed w.r.t. previous start),
          "sorted_end" (overlapping but endtimes sorted too), "any" draws one of them.
    """
    if mode == "any":
        mode = draw(st.sampled_from(["disjoint", "overlap", "sorted_end"]))
    n = draw(st.integers(0, max_n))
    out = []
    t = draw(st.integers(0, first_max))
    for _ in range(n):
        ln = draw(st.integers(1, max_len))
        if mode == "disjoint":
            a = (out[-1][1] if out else t) + draw(st.integers(0, max_gap))
            b = a + ln
        elif mode == "overlap":
            a = (out[-1][0] if out else t) + draw(st.integers(0, max_gap))
            b = a + ln
        else:
            a = (out[-1][0] if out else t) + draw(st.integers(0, max_gap))
            b = max(a + ln, out[-1][1] if out else 0)
        out.append([a, b])
    return out


def admissible(rows, s):
    return not any(a < s < b for a, b in rows)


def admissible_times(rows, t0, t1, extra=()):
    """All candidate cut times in [t0, t1] that straddle no row: row edges, run edges, and midpoints
    of row-free regions."""
    cand = {t0, t1}
    for a, b in rows:
        cand.update((a, b))
    cand.update(extra)
    pts = sorted(c for c in cand if t0 <= c <= t1)
    more = set()
    for x, y in zip(pts[:-1], pts[1:]):
        if y - x >= 2:
            more.add((x + y) // 2)
    return [s for s in sorted(set(pts) | more) if admissible(rows, s)]


@st.composite
def st_cuts(draw, rows, t0, t1, max_cuts=6):
    """Sorted multiset of admissible interior cut times (duplicates => zero-duration chunks)."""
    adm = admissible_times(rows, t0, t1)
    shape = draw(st.sampled_from(["few", "few", "few", "none", "all", "dup"]))
    if shape == "none" or not adm:
        return []
    if shape == "all":
        return list(adm)
    cuts = draw(st.lists(st.sampled_from(adm), max_size=max_cuts))
    if shape == "dup" and cuts:
        cuts = cuts + [cuts[draw(st.integers(0, len(cuts) - 1))]]
    return sorted(cuts)


def partition(rows, t0, t1, cuts):
    """Split rows (list of [a,b]) into chunks [(start, end, [row indices])] along cuts."""
    edges = [t0] + list(cuts) + [t1]
    out = []
    used = 0
    n = len(rows)
    for a, b in zip(edges[:-1], edges[1:]):
        idx = []
        if a != b:
            while used < n and rows[used][0] >= a and rows[used][1] <= b and rows[used][0] < b:
                idx.append(used)
                used += 1
        out.append((a, b, idx))
    if used != n:
        raise AssertionError(f"generator bug: partition left rows over {rows} {t0} {t1} {cuts}")
    return out


def time_dtype(enc="endtime", extra=()):
    if enc == "endtime":
        base = [(("Start time since unix epoch [ns]", "time"), np.int64),
                (("Exclusive end time since unix epoch [ns]", "endtime"), np.int64)]
    else:
        base = [(("Start time since unix epoch [ns]", "time"), np.int64),
                (("Length of the interval in samples", "length"), np.int32),
                (("Width of one sample [ns]", "dt"), np.int16)]
    return np.dtype(base + list(extra))


def rows_to_array(rows, unit=1, enc="endtime", extra=(), ids=True, id_offset=0):
    """Structured array for rows on the grid scaled by `unit`; an `id` column numbers the rows."""
    ex = list(extra)
    if ids:
        ex = [("id", np.int64)] + ex
    x = np.zeros(len(rows), time_dtype(enc, ex))
    if len(rows):
        r = np.asarray(rows, dtype=np.int64).reshape(-1, 2)
        x["time"] = r[:, 0] * unit
        if enc == "endtime":
            x["endtime"] = r[:, 1] * unit
        else:
            dt = unit if unit < 2 ** 15 else 1
            x["dt"] = dt
            x["length"] = (r[:, 1] - r[:, 0]) * (unit // dt)
    if ids:
        x["id"] = np.arange(len(rows)) + id_offset
    return x


def endtimes(x):
    if "endtime" in x.dtype.names:
        return x["endtime"].astype(np.int64)
    return x["time"].astype(np.int64) + x["length"].astype(np.int64) * x["dt"].astype(np.int64)


def arrays_equal(a, b):
    """Bit-exact comparison of two structured arrays (dtype names/formats and bytes)."""
    if a.dtype.names != b.dtype.names or len(a) != len(b):
        return False
    for n in a.dtype.names:
        if a[n].dtype != b[n].dtype:
            return False
        if np.ascontiguousarray(a[n]).tobytes() != np.ascontiguousarray(b[n]).tobytes():
            return False
    return True
