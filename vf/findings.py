"""Known findings: committed list (known_findings.json) + signature predicates.

An entry is {finding, property, status: "known"|"fixed", line, signature, commit?, replay: [...]}.
`signature` names a predicate below over (sub-check name, descriptor, failure bucket, message);  it
has to be specific enough to identify the failing input / call site, so that a different violation
of the same property is still reported.  A "fixed" entry suppresses nothing.
The file is read-only at run time.
"""
import json
import os

HERE = os.path.dirname(os.path.dirname(os.path.abspath(__file__)))
PATH = os.path.join(HERE, "known_findings.json")


def load():
    out = []
    if os.path.exists(PATH):
        with open(PATH) as f:
            out += json.load(f)["entries"]
    return out


# --- signature predicates -----------------------------------------------------------------------
# each: (sub, desc, bucket, message) -> bool

SIGNATURES = {}


def signature(name):
    def deco(fn):
        SIGNATURES[name] = fn
        return fn

    return deco


def match(prop, sub, desc, bucket, message, entries=None):
    """Return the *known* entry matching this failure, else None."""
    for e in entries if entries is not None else load():
        if e.get("status") != "known":
            continue
        if prop not in ([e["property"]] + list(e.get("also_properties", []))):
            continue
        fn = SIGNATURES.get(e["signature"])
        if fn is None:
            continue
        try:
            if fn(sub, desc, bucket, message):
                return e
        except Exception:
            continue
    return None
