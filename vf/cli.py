"""./check <ID> --tier quick|thorough      run the registered check of one property
./check <ID> --replay <file>              re-execute one saved case through the plain oracle function

Exit 0: the property held on everything explored (KNOWN-FINDING lines may be printed).
Exit 1: at least one line `VIOLATION property=<id> replay=<path>`.
Exit 2: harness error (never a violation).
"""
import argparse
import glob
import hashlib
import json
import os
import shutil
import subprocess
import sys
import time

HERE = os.path.dirname(os.path.dirname(os.path.abspath(__file__)))
REPO = os.environ.get("VERIF_REPO", "/repo")
WORK = os.path.join(HERE, ".work")


def tree_hash():
    h = hashlib.sha1()
    for root, dirs, files in sorted(os.walk(os.path.join(REPO, "strax"))):
        dirs.sort()
        for fn in sorted(files):
            if fn.endswith(".py"):
                p = os.path.join(root, fn)
                h.update(p.encode())
                with open(p, "rb") as f:
                    h.update(f.read())
    return h.hexdigest()[:16]


def child_env(th):
    env = dict(os.environ)
    nb = os.path.join(WORK, "numba", th)
    os.makedirs(nb, exist_ok=True)
    # drop caches of other trees (an edited tree must never be served stale machine code)
    for d in glob.glob(os.path.join(WORK, "numba", "*")):
        if os.path.basename(d) != th and time.time() - os.path.getmtime(d) > 6 * 3600:
            shutil.rmtree(d, ignore_errors=True)
    env.update(
        NUMBA_CACHE_DIR=nb,
        PYTHONHASHSEED="0",
        PYTHONDONTWRITEBYTECODE="1",
        HYPOTHESIS_STORAGE_DIRECTORY=os.path.join(WORK, "hypothesis"),
        VERIF_WORK=WORK,
        PYTHONPATH=HERE + os.pathsep + REPO + (os.pathsep + env["PYTHONPATH"] if env.get("PYTHONPATH") else ""),
    )
    for k in ("NUMBA_NUM_THREADS", "OMP_NUM_THREADS", "MKL_NUM_THREADS", "OPENBLAS_NUM_THREADS", "BLOSC_NTHREADS"):
        env.setdefault(k, "1")
    return env


def run_worker(args, env, timeout=None, slot=None):
    """Every worker gets a PRIVATE, EMPTY numba cache dir: numba's on-disk cache is not safe across processes
    here (concurrent first-compiles of different signatures clobber index entries, and cached object code for
    record dtypes refers to per-process type ids), so nothing compiled by another process is ever loaded."""
    env = dict(env)
    if slot is not None:
        priv = os.path.join(env["VERIF_SCRATCH"], f"numba-{slot}")
        shutil.rmtree(priv, ignore_errors=True)
        os.makedirs(priv, exist_ok=True)
        env["NUMBA_CACHE_DIR"] = priv
    return subprocess.Popen([sys.executable, "-m", "vf.shard"] + args, env=env, cwd=HERE,
                            stdout=subprocess.DEVNULL if not os.environ.get("VERIF_DEBUG") else None,
                            stderr=subprocess.DEVNULL if not os.environ.get("VERIF_DEBUG") else None)


def read_json(p):
    try:
        with open(p) as f:
            return json.load(f)
    except Exception:
        return None


def prop_meta(prop, env):
    """LEVEL/RULE/ASSUMPTIONS of the property module, read in a child (keeps strax out of the parent)."""
    code = ("import json,logging,warnings;logging.disable(50);warnings.filterwarnings('ignore');"
            "import importlib;m=importlib.import_module('vf.props.%s');"
            "print('\\n@@META@@'+json.dumps(dict(level=m.LEVEL,rule=m.RULE,assumptions=list(m.ASSUMPTIONS),env=getattr(m,'ENV',{}),"
            "subs=[dict(name=s.name,enum=s.enumerate is not None,exh=list(s.exhaustive_in),req=list(s.required_classes)) for s in m.SUBCHECKS])))"
            % prop.lower())
    r = subprocess.run([sys.executable, "-c", code], env=env, cwd=HERE, capture_output=True, text=True)
    for line in r.stdout.splitlines():
        if line.startswith("@@META@@"):
            return json.loads(line[len("@@META@@"):])
    print("HARNESS-ERROR cannot import property module:\n" + r.stderr[-4000:])
    sys.exit(2)


def write_replay(prop, sub, failure, status="found"):
    d = os.path.join(HERE, "replay", "found")
    os.makedirs(d, exist_ok=True)
    body = dict(property=prop, sub=sub, status=status, bucket=failure.get("bucket"),
                message=failure.get("message"), desc=failure["desc"], traceback=failure.get("traceback"))
    h = hashlib.sha1(json.dumps([sub, failure["desc"]], sort_keys=True, default=str).encode()).hexdigest()[:10]
    p = os.path.join(d, f"{prop}-{sub}-{h}.json")
    with open(p, "w") as f:
        json.dump(body, f, indent=1, default=str)
    try:  # keep a private copy (replay/found is scratch space that anyone may clear)
        os.makedirs(os.path.join(WORK, "found"), exist_ok=True)
        shutil.copy(p, os.path.join(WORK, "found", os.path.basename(p)))
    except OSError:
        pass
    return os.path.relpath(p, HERE)


def main(argv=None):
    ap = argparse.ArgumentParser()
    ap.add_argument("prop")
    ap.add_argument("--tier", default=os.environ.get("VERIF_TIER", "quick"), choices=["quick", "thorough"])
    ap.add_argument("--replay", default=None)
    ap.add_argument("--only", default=None)
    ap.add_argument("--jobs", type=int, default=int(os.environ.get("VERIF_JOBS", "16")))
    ap.add_argument("--no-evidence", action="store_true")
    a = ap.parse_args(argv)
    prop = a.prop.upper()
    try:
        seed = int(os.environ.get("VERIF_SEED", "0") or 0)
    except ValueError:
        seed = 0
    t0 = time.time()
    th = tree_hash()
    env = child_env(th)
    run_dir = os.path.join(WORK, "runs", f"{prop}-{os.getpid()}")
    shutil.rmtree(run_dir, ignore_errors=True)
    os.makedirs(run_dir)
    env["VERIF_SCRATCH"] = run_dir
    env["VERIF_NUMBA_PERSIST"] = os.path.join(WORK, "numba", th, prop)
    try:
        rc = _main(a, prop, seed, env, run_dir, t0)
    finally:
        shutil.rmtree(run_dir, ignore_errors=True)
    sys.exit(rc)


def _main(a, prop, seed, env, run_dir, t0):
    violations = []  # (replay path, text)
    known_lines = []
    notes = []

    meta = prop_meta(prop, env)
    env.update({k: str(v) for k, v in meta.get("env", {}).items()})  # e.g. NUMBA_DISABLE_JIT for graph-level checks

    # ---- single replay -------------------------------------------------------------------------
    if a.replay:
        out = os.path.join(run_dir, "replay.json")
        p = run_worker(["--prop", prop, "--out", out, "--replay", os.path.abspath(a.replay)], env, slot="r")
        p.wait()
        res = read_json(out)
        if not res or not res.get("ok"):
            print("HARNESS-ERROR", (res or {}).get("error", "worker died"))
            return 2
        r = res["replays"][0]
        if r["bucket"]:
            print(f"replay fails: bucket={r['bucket']} message={r['failure']['message'][:500]}")
            print(f"VIOLATION property={prop} replay={a.replay}")
            return 1
        print("replay passes")
        return 0


    # ---- replay tier: committed regression / known / fixed cases (also warms the numba cache) ---
    files = sorted(glob.glob(os.path.join(HERE, "replay", f"{prop}-*.json")) +
                   glob.glob(os.path.join(HERE, "replay", "known", f"{prop}-*.json")))
    replays = []
    if files:
        out = os.path.join(run_dir, "replays.json")
        p = run_worker(["--prop", prop, "--out", out, "--replay"] + files, env, slot="r")
        p.wait()
        res = read_json(out)
        if not res or not res.get("ok"):
            print("HARNESS-ERROR in replay tier:", (res or {}).get("error", f"worker died rc={p.returncode}"))
            return 2
        replays = res["replays"]
    from vf import findings
    entries = findings.load()
    by_id = {e["finding"]: e for e in entries}
    reported_known = set()
    for r in replays:
        rel = os.path.relpath(r["path"], HERE)
        if r["status"] == "known":
            e = by_id.get(r["finding"])
            if r["bucket"] and e is not None and e["status"] == "known":
                if r["finding"] not in reported_known:
                    reported_known.add(r["finding"])
                    known_lines.append(f"KNOWN-FINDING: property={prop} {e['finding']} {e['what']} (replay={rel})")
            elif r["bucket"]:
                violations.append((rel, f"listed-as-fixed finding {r['finding']} fails: {r['bucket']}"))
            else:
                notes.append(f"known finding {r['finding']} no longer reproduces from {rel}")
        else:
            if r["bucket"]:
                violations.append((rel, f"{r['status']} case fails: {r['bucket']}: {r['failure']['message'][:300]}"))

    # ---- generated search --------------------------------------------------------------------
    nshards = max(1, a.jobs)
    procs = []
    for i in range(nshards):
        out = os.path.join(run_dir, f"shard{i}.json")
        args = ["--prop", prop, "--tier", a.tier, "--seed", str(seed), "--shard", str(i),
                "--nshards", str(nshards), "--out", out]
        if a.only:
            args += ["--only", a.only]
        procs.append((i, out, run_worker(args, env, slot=i)))
    shard_res = []
    harness_errors = []
    # watchdog: a worker that is still running long after any sane budget is a harness problem (exit 2), not a
    # verdict; budgets are case counts, this only keeps a stuck worker from blocking the caller for ever
    limit = float(os.environ.get("VERIF_WALL_LIMIT_S", "10800" if a.tier == "quick" else "43200"))
    t_end = t0 + limit
    for i, out, p in procs:
        try:
            p.wait(timeout=max(1.0, t_end - time.time()))
        except subprocess.TimeoutExpired:
            p.kill()
            p.wait()
        res = read_json(out)
        if res is None:
            harness_errors.append(f"shard {i} died (rc={p.returncode}) without a result")
        elif not res.get("ok"):
            harness_errors.append(f"shard {i}: {res.get('error')}")
        else:
            shard_res.append(res)
    if harness_errors:
        for h in harness_errors[:3]:
            print("HARNESS-ERROR", h)
        return 2

    # ---- merge ---------------------------------------------------------------------------------
    subs = {}
    for res in shard_res:
        for s in res["subs"]:
            m = subs.setdefault(s["sub"], dict(evaluations=0, nt=set(), classes={}, class_sample={}, samples=[],
                                               excluded={}, inconclusive=0, failures={}, wall_s=0.0, distinct=0,
                                               enumerated=False, inner=0, inner_nt=0))
            m["evaluations"] += s["evaluations"]
            m["distinct"] += s["distinct"]
            m["nt"].update(s["nt"])
            m["enumerated"] = m["enumerated"] or s.get("enumerated", False)
            for k, v in s["classes"].items():
                m["classes"][k] = m["classes"].get(k, 0) + v
            for k, v in s["class_sample"].items():
                m["class_sample"].setdefault(k, v)
            m["samples"] += s["samples"]
            for k, v in s["excluded"].items():
                m["excluded"][k] = m["excluded"].get(k, 0) + v
            m["inconclusive"] += s["inconclusive"]
            m["inner"] += s.get("inner_evaluations", 0)
            m["inner_nt"] += s.get("inner_nontrivial", 0)
            m["wall_s"] = max(m["wall_s"], s["wall_s"])
            for b, f in s["failures"].items():
                g = m["failures"].get(b)
                if g is None:
                    m["failures"][b] = dict(f, bucket=b)
                else:
                    g["count"] += f["count"]
                    for kk, vv in f.get("known_counts", {}).items():
                        g["known_counts"][kk] = g["known_counts"].get(kk, 0) + vv
                    if (g.get("known") and not f.get("known")) or (
                            bool(g.get("known")) == bool(f.get("known")) and f["size"] < g["size"]):
                        cnt, kc = g["count"], g["known_counts"]
                        m["failures"][b] = dict(f, bucket=b, count=cnt, known_counts=kc)

    known_hits = {}
    for name, m in subs.items():
        for b, f in m["failures"].items():
            for kid, n in f.get("known_counts", {}).items():
                if kid != "None":
                    known_hits[kid] = known_hits.get(kid, 0) + n
            if f.get("known"):
                continue
            rel = write_replay(prop, name, f)
            violations.append((rel, f"{name}: {b}: {f['message'][:300]} ({f['count']} cases)"))
    for kid, n in sorted(known_hits.items()):
        e = by_id.get(kid)
        if e is not None and kid not in reported_known:
            reported_known.add(kid)
            known_lines.append(f"KNOWN-FINDING: property={prop} {kid} {e['what']} ({n} generated cases)")

    # required classes (generator health): missing => harness error
    missing = []
    for sm in meta["subs"]:
        m = subs.get(sm["name"])
        if m is None:
            continue
        for c in sm["req"]:
            if m["classes"].get(c, 0) == 0:
                missing.append(f"{sm['name']}:{c}")

    # ---- evidence ------------------------------------------------------------------------------
    evaluations = sum(m["evaluations"] + m["inner"] for m in subs.values()) + len(replays)
    nt_total = sum(len(m["nt"]) for m in subs.values())
    samples = []
    for name, m in subs.items():
        for s in m["samples"][:2]:
            samples.append(dict(sub=name, **s))
        for c, d in list(m["class_sample"].items())[:4]:
            samples.append(dict(sub=name, cls=c, desc=d))
    samples = samples[:24]
    exhaustive = bool(subs) and all(
        (m["enumerated"] and a.tier in next((s["exh"] for s in meta["subs"] if s["name"] == n), []))
        for n, m in subs.items())
    ev = dict(
        property_id=prop, tier=a.tier, seed=seed, level=meta["level"],
        coverage=dict(
            evaluations=evaluations, distinct_nontrivial=nt_total, rule=meta["rule"], samples=samples,
            exhaustive=exhaustive,
            per_subcheck={n: dict(evaluations=m["evaluations"], distinct_cases=m["distinct"],
                                  distinct_nontrivial=len(m["nt"]),
                                  classes=dict(sorted(m["classes"].items())), excluded_known=m["excluded"],
                                  inconclusive=m["inconclusive"], enumerated=m["enumerated"],
                                  inner_evaluations=m["inner"], inner_nontrivial=m["inner_nt"],
                                  exhaustive=(m["enumerated"] and a.tier in next(
                                      (s["exh"] for s in meta["subs"] if s["name"] == n), [])),
                                  failure_buckets={b: dict(count=f["count"], known=f.get("known"),
                                                           known_counts=f.get("known_counts"))
                                                   for b, f in m["failures"].items()},
                                  slowest_shard_wall_s=m["wall_s"]) for n, m in subs.items()},
            replay_tier=[dict(path=os.path.relpath(r["path"], HERE), status=r["status"], finding=r["finding"],
                              failed=bool(r["bucket"])) for r in replays],
            known_findings_reported=sorted(reported_known),
            notes=notes,
        ),
        assumptions=meta["assumptions"],
        wall_s=round(time.time() - t0, 2),
        violations=len(violations),
    )
    if not a.no_evidence and not a.only:
        os.makedirs(os.path.join(HERE, "evidence"), exist_ok=True)
        with open(os.path.join(HERE, "evidence", f"{prop}.json"), "w") as f:
            json.dump(ev, f, indent=1, default=str)

    for n, m in subs.items():
        cls = ", ".join(f"{k}={v}" for k, v in sorted(m["classes"].items()))
        print(f"[{prop}/{n}] cases={m['evaluations']} inner={m['inner']} distinct_nontrivial={len(m['nt'])} "
              f"excluded={m['excluded']} inconclusive={m['inconclusive']} shard_wall={m['wall_s']}s")
        if os.environ.get("VERIF_VERBOSE"):
            print(f"    classes: {cls}")
    for n in notes:
        print("NOTE", n)
    for k in known_lines:
        print(k)
    if missing and not violations:
        print("HARNESS-ERROR generator never produced required classes:", ", ".join(missing))
        return 2
    print(f"[{prop}] tier={a.tier} seed={seed} evaluations={evaluations} nontrivial={nt_total} "
          f"violations={len(violations)} wall={time.time() - t0:.1f}s")
    if violations:
        for rel, text in violations:
            print(f"  violation: {text}")
            print(f"VIOLATION property={prop} replay={rel}")
        return 1
    return 0


if __name__ == "__main__":
    main()
