"""Worker process: runs one shard of every sub-check of one property, or a list of replay files.

Writes one JSON result file.  Never prints VIOLATION lines itself (the parent does).
Exit status: 0 = ran (failures, if any, are in the result file), 2 = harness error.
"""
import argparse
import collections
import hashlib
import importlib
import json
import logging
import math
import os
import sys
import time
import traceback
import warnings

from vf import findings
from vf.core import Excluded, Inconclusive, bucket_of, desc_hash, short


def load_prop(prop):
    return importlib.import_module("vf.props." + prop.lower())


def derive_seed(*parts):
    s = ":".join(str(p) for p in parts)
    return int(hashlib.sha1(s.encode()).hexdigest()[:12], 16)


class HarnessError(Exception):
    pass


class Recorder:
    def __init__(self, prop, sc):
        self.prop = prop
        self.sc = sc
        self.evaluations = 0
        self.nt = set()
        self.seen = set()
        self.classes = collections.Counter()
        self.class_sample = {}
        self.samples = []
        self.excluded = collections.Counter()
        self.inconclusive = 0
        self.inner = 0
        self.inner_nt = 0
        self.failures = {}
        self.entries = findings.load()
        self.t0 = time.time()

    def execute(self, desc, want_bucket=None):
        """Run one case and record.  Returns the failure bucket or None."""
        self.evaluations += 1
        self.last_known = None
        h = desc_hash(desc)
        try:
            info = self.sc.run(desc) or {}
        except Excluded as e:
            self.excluded[e.finding] += 1
            return None
        except Inconclusive:
            self.inconclusive += 1
            return None
        except (KeyboardInterrupt, SystemExit):
            raise
        except BaseException as e:  # noqa
            b = bucket_of(e)
            if b is None:
                raise HarnessError(
                    f"{self.prop}/{self.sc.name}: exception without a strax frame on "
                    f"{json.dumps(desc, default=str)[:600]}:\n" + traceback.format_exc()
                ) from e
            size = len(json.dumps(desc, default=str))
            f = self.failures.get(b)
            if f is None:
                f = self.failures[b] = dict(count=0, size=None)
            f["count"] += 1
            k = findings.match(self.prop, self.sc.name, desc, b, str(e), self.entries)
            kid = k["finding"] if k else None
            f.setdefault("known_counts", {})
            f["known_counts"][str(kid)] = f["known_counts"].get(str(kid), 0) + 1
            # an unknown failure always outranks a known one as the bucket's representative
            better = f["size"] is None or (f.get("known") and not kid) or (
                size < f["size"] and bool(f.get("known")) == bool(kid))
            self.last_known = kid
            if better:
                f["known"] = kid
                f.update(
                    size=size,
                    desc=desc,
                    message=str(e)[:2000],
                    exc_type=type(e).__name__,
                    traceback=traceback.format_exc()[-4000:],
                )
            return b
        self.inner += int(info.get("inner_evaluations", 0))
        self.inner_nt += int(info.get("inner_nontrivial", 0))
        first = h not in self.seen
        self.seen.add(h)
        cl = list(info.get("classes", ()))
        for c in cl:
            self.classes[c] += 1
            if c not in self.class_sample:
                self.class_sample[c] = desc
        if info.get("nt"):
            self.nt.add(h)
            if first and len(self.samples) < 3:
                self.samples.append(dict(desc=short(desc, self.sc.sample_cap), classes=cl))
        return None

    def result(self):
        return dict(
            sub=self.sc.name,
            evaluations=self.evaluations,
            distinct=len(self.seen),
            nt=sorted(self.nt),
            classes=dict(self.classes),
            class_sample={c: short(d, self.sc.sample_cap) for c, d in self.class_sample.items()},
            samples=self.samples,
            excluded=dict(self.excluded),
            inconclusive=self.inconclusive,
            inner_evaluations=self.inner,
            inner_nontrivial=self.inner_nt,
            failures=self.failures,
            wall_s=round(time.time() - self.t0, 3),
        )


def n_for(sc, tier, nshards):
    budget = int(getattr(sc, tier))
    scale = float(os.environ.get("VERIF_SCALE", "1"))
    budget = max(1, int(budget * scale))
    used = max(1, min(sc.shards, nshards, budget // max(1, sc.min_per_shard) or 1))
    return budget, used, int(math.ceil(budget / used))


def hyp_settings(n, phases):
    from hypothesis import HealthCheck, settings

    return settings(
        max_examples=n,
        deadline=None,
        database=None,
        derandomize=False,
        report_multiple_bugs=False,
        phases=phases,
        suppress_health_check=[HealthCheck.too_slow, HealthCheck.data_too_large,
                               HealthCheck.large_base_example, HealthCheck.function_scoped_fixture],
        print_blob=False,
    )


def run_generated(prop, sc, tier, seed, shard, nshards, shrink_cap):
    from hypothesis import Phase, given
    from hypothesis import seed as hseed

    rec = Recorder(prop, sc)
    budget, used, n = n_for(sc, tier, nshards)
    if shard >= used:
        return None
    strat = sc.strategy()
    s = derive_seed(seed, prop, sc.name, shard)

    @hseed(s)
    @hyp_settings(n, [Phase.generate])
    @given(strat)
    def collect(desc):
        rec.execute(desc)

    collect()
    # phase 2: shrink one representative per bucket (same seed => same sequence => same failure)
    for b in list(rec.failures):
        if rec.failures[b].get("known"):
            continue
        state = dict(calls=0, best=None, size=None)
        rec2 = Recorder(prop, sc)

        class _Hit(Exception):
            pass

        @hseed(s)
        @hyp_settings(n, [Phase.generate, Phase.shrink])
        @given(strat)
        def shrink(desc):
            if state["calls"] >= shrink_cap:
                return
            got = rec2.execute(desc)
            if got == b and not rec2.last_known:
                state["calls"] += 1
                raise _Hit()

        try:
            shrink()
        except BaseException as e:  # _Hit, or hypothesis' Flaky once the cap is reached
            if isinstance(e, (KeyboardInterrupt, SystemExit, HarnessError)):
                raise
        f2 = rec2.failures.get(b)
        if f2 and not f2.get("known") and f2["size"] is not None and f2["size"] <= rec.failures[b]["size"]:
            old = rec.failures[b]
            rec.failures[b] = dict(f2, count=old["count"], known_counts=old["known_counts"], shrunk=True)
    return rec.result()


def run_enumerated(prop, sc, tier, seed, shard, nshards):
    rec = Recorder(prop, sc)
    used = max(1, min(sc.shards, nshards))
    if shard >= used:
        return None
    it = sc.enumerate(tier, seed)
    for i, desc in enumerate(it):
        if i % used != shard:
            continue
        rec.execute(desc)
    r = rec.result()
    r["enumerated"] = True
    return r


def run_replays(prop, files):
    mod = load_prop(prop)
    subs = {sc.name: sc for sc in mod.SUBCHECKS}
    out = []
    for path in files:
        with open(path) as f:
            rp = json.load(f)
        sc = subs.get(rp["sub"])
        if sc is None:
            raise HarnessError(f"replay {path}: unknown sub-check {rp['sub']}")
        rec = Recorder(prop, sc)
        b = rec.execute(rp["desc"])
        out.append(dict(path=path, sub=rp["sub"], status=rp.get("status", "regression"),
                        finding=rp.get("finding"), bucket=b,
                        excluded=dict(rec.excluded),
                        failure=rec.failures.get(b) if b else None,
                        wall_s=rec.result()["wall_s"]))
    return out


def main(argv=None):
    ap = argparse.ArgumentParser()
    ap.add_argument("--prop", required=True)
    ap.add_argument("--tier", default="quick")
    ap.add_argument("--seed", type=int, default=0)
    ap.add_argument("--shard", type=int, default=0)
    ap.add_argument("--nshards", type=int, default=1)
    ap.add_argument("--out", required=True)
    ap.add_argument("--only", default=None, help="comma separated sub-check names")
    ap.add_argument("--replay", nargs="*", default=None)
    ap.add_argument("--shrink-cap", type=int, default=300)
    a = ap.parse_args(argv)

    logging.disable(logging.CRITICAL)
    warnings.filterwarnings("ignore")
    try:
        # tqdm starts a monitor thread on the first bar (even a disabled one) that takes tqdm's global lock every
        # few seconds: a harness child forked while it holds the lock deadlocks (seen once in C04), and it is a
        # second thread next to the controlled scheduler.  Progress bars are not part of any property.
        import tqdm
        tqdm.tqdm.monitor_interval = 0
        import threading
        tqdm.tqdm.set_lock(threading.RLock())  # not the default cross-process semaphore (shared with forked children)
    except Exception:  # noqa
        pass
    res = dict(prop=a.prop, shard=a.shard, ok=True, subs=[], replays=None)
    try:
        if a.replay is not None:
            res["replays"] = run_replays(a.prop, a.replay)
        else:
            mod = load_prop(a.prop)
            only = set(a.only.split(",")) if a.only else None
            for sc in mod.SUBCHECKS:
                if only and sc.name not in only:
                    continue
                if sc.enumerate is not None:
                    r = run_enumerated(a.prop, sc, a.tier, a.seed, a.shard, a.nshards)
                else:
                    r = run_generated(a.prop, sc, a.tier, a.seed, a.shard, a.nshards, a.shrink_cap)
                if r is not None:
                    res["subs"].append(r)
    except BaseException as e:  # noqa
        res["ok"] = False
        res["error"] = "".join(traceback.format_exception(type(e), e, e.__traceback__))[-6000:]
    with open(a.out, "w") as f:
        json.dump(res, f, default=str)
    sys.stdout.flush()
    sys.stderr.flush()
    # daemon threads of a failed case must not keep the process alive
    os._exit(0 if res["ok"] else 2)


if __name__ == "__main__":
    main()
