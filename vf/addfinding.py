"""python -m vf.addfinding '<json entry>'   : append/replace one entry of known_findings.json under a file lock.
Entry keys: finding (e.g. "F7"), property, status ("known"|"fixed"), what, line, signature (name registered with
@vf.findings.signature in the property module, or null), replay (list of paths), also_properties (optional),
commit (for fixed)."""
import fcntl, json, os, sys
HERE = os.path.dirname(os.path.dirname(os.path.abspath(__file__)))
P = os.path.join(HERE, "known_findings.json")
e = json.loads(sys.argv[1])
for k in ("finding", "property", "status", "what", "line"):
    assert k in e, k
with open(P + ".lock", "w") as lk:
    fcntl.flock(lk, fcntl.LOCK_EX)
    d = json.load(open(P))
    d["entries"] = [x for x in d["entries"] if not (x["finding"] == e["finding"] and x["property"] == e["property"])] + [e]
    tmp = P + ".tmp"
    json.dump(d, open(tmp, "w"), indent=1)
    os.replace(tmp, P)
print("ok", e["finding"])
