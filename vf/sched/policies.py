"""Schedule policies: every choice is a pure function of generated values (seed ints / explicit traces)."""
import random


def _default(r, me):
    return me if me in r else min(r, key=lambda t: t.tid)


class RandomPolicy:
    """Continue the current thread with probability p_stay, else uniform among runnable."""

    def __init__(self, seed, p_stay=0.7):
        self.rng = random.Random(seed)
        self.p = p_stay

    def choose(self, s, r, me, why):
        if me in r and self.rng.random() < self.p:
            return me
        return self.rng.choice(sorted(r, key=lambda t: t.tid))


class PCTPolicy:
    """PCT: random thread priorities, d-1 priority change points among the first k steps."""

    def __init__(self, seed, depth=3, k=300):
        self.rng = random.Random(seed)
        self.prio = {}
        self.change = sorted(self.rng.randrange(k) for _ in range(max(0, depth - 1)))
        self.low = 0
        self.n = 0

    def choose(self, s, r, me, why):
        for t in r:
            if t.tid not in self.prio:
                self.prio[t.tid] = self.rng.random() + 1.0
        self.n += 1
        while self.change and self.change[0] <= self.n:
            self.change.pop(0)
            if me in r:
                self.low -= 1
                self.prio[me.tid] = self.low
        return max(r, key=lambda t: (self.prio[t.tid], -t.tid))


class TracePolicy:
    """Follow an explicit list of thread ids at decision points, then the default (no preemption)."""

    def __init__(self, trace, then=None):
        self.trace = list(trace)
        self.i = 0
        self.then = then
        self.diverged = False

    def choose(self, s, r, me, why):
        if self.i < len(self.trace):
            tid = self.trace[self.i]
            self.i += 1
            for t in r:
                if t.tid == tid:
                    return t
            self.diverged = True
        if self.then is not None:
            return self.then.choose(s, r, me, why)
        return _default(r, me)


class ChoicePolicy:
    """Explicit small ints: at the i-th decision point take runnable[c % n] (sorted by tid), afterwards default.
    Shrinks well (shorter list / smaller ints = fewer preemptions)."""

    def __init__(self, choices):
        self.choices = list(choices)
        self.i = 0

    def choose(self, s, r, me, why):
        if self.i < len(self.choices):
            c = self.choices[self.i]
            self.i += 1
            rr = sorted(r, key=lambda t: t.tid)
            if me in rr:  # 0 = stay
                rr.remove(me)
                rr.insert(0, me)
            return rr[c % len(rr)]
        return _default(r, me)


class StarvePolicy:
    """Never run threads whose name contains `victim` while anything else can run."""

    def __init__(self, victim, inner):
        self.victim = victim
        self.inner = inner

    def choose(self, s, r, me, why):
        rest = [t for t in r if self.victim not in t.name]
        if rest:
            if len(rest) == 1:
                return rest[0]
            return self.inner.choose(s, rest, me, why)
        return self.inner.choose(s, r, me, why)


class AfterOpPolicy:
    """Targeted: force a switch away from the running thread right after the n-th occurrence of operation kind
    `why` (e.g. 'release'), otherwise follow `inner`."""

    def __init__(self, why, nth, inner):
        self.why = why
        self.nth = nth
        self.count = 0
        self.inner = inner

    def choose(self, s, r, me, why):
        if why == self.why:
            self.count += 1
            if self.count == self.nth:
                others = [t for t in r if t is not me]
                if others:
                    return self.inner.choose(s, others, me, why)
        return self.inner.choose(s, r, me, why)


def make_policy(d):
    """Policy from a JSON descriptor."""
    k = d.get("kind", "random")
    if k == "random":
        return RandomPolicy(d["seed"], d.get("p_stay", 0.7))
    if k == "pct":
        return PCTPolicy(d["seed"], d.get("depth", 3), d.get("k", 300))
    if k == "trace":
        return TracePolicy(d["trace"])
    if k == "choices":
        return ChoicePolicy(d["choices"])
    if k == "starve":
        return StarvePolicy(d["victim"], make_policy(d["inner"]))
    if k == "after":
        return AfterOpPolicy(d["why"], d["nth"], make_policy(d["inner"]))
    raise ValueError(k)


def st_policy(max_seed=2 ** 20):
    from hypothesis import strategies as st

    rnd = st.builds(lambda s, p: dict(kind="random", seed=s, p_stay=p), st.integers(0, max_seed),
                    st.sampled_from([0.3, 0.5, 0.7, 0.9, 0.97]))
    pct = st.builds(lambda s, d, k: dict(kind="pct", seed=s, depth=d, k=k), st.integers(0, max_seed),
                    st.integers(1, 4), st.sampled_from([30, 100, 300]))
    cho = st.builds(lambda c: dict(kind="choices", choices=c), st.lists(st.integers(0, 3), max_size=40))
    after = st.builds(lambda w, n, i: dict(kind="after", why=w, nth=n, inner=i),
                      st.sampled_from(["release", "acquire", "spawn", "block", "task-done"]), st.integers(1, 40), rnd)
    return st.one_of(rnd, rnd, pct, cho, after)
