"""Bounded-exhaustive stateless DFS over schedules (iterative context bounding)."""
from vf.sched.policies import TracePolicy
from vf.sched.scheduler import Scheduler


def explore(run_case, preemption_bound=2, max_schedules=100000, **sched_kw):
    """run_case(scheduler) -> anything; called once per schedule with a fresh Scheduler whose policy replays a
    prefix and then never preempts.  Yields (trace, scheduler, result) for every schedule.
    Returns through StopIteration value whether the enumeration was complete."""
    stack = [[]]
    seen = 0
    complete = True
    while stack:
        prefix = stack.pop()
        S = Scheduler(TracePolicy(prefix), **sched_kw)
        S.record_decisions = True
        res = run_case(S)
        seen += 1
        yield list(S.trace), S, res
        if seen >= max_schedules:
            complete = not stack
            break
        dlog = S.dlog
        # preemptions used by the prefix part
        used = 0
        pre = []
        for i, (me, opts, chosen) in enumerate(dlog):
            pre.append(used)
            if me is not None and chosen != me:
                used += 1
        for i in range(len(dlog) - 1, len(prefix) - 1, -1):
            me, opts, chosen = dlog[i]
            for alt in opts:
                if alt == chosen:
                    continue
                cost = pre[i] + (1 if (me is not None and alt != me) else 0)
                if cost <= preemption_bound:
                    stack.append([d[2] for d in dlog[:i]] + [alt])
    return complete
