"""Cooperative scheduler that owns the interleaving of strax' threads.

Every controlled thread is a real OS thread parked on its own semaphore; exactly one runs at a time.
Control returns to the scheduler at every synchronisation operation of the shims below (and, when
line tracing is on, at every line of selected source files); the next thread to run is chosen by a
*policy* object driven by generated values.  Time is virtual: timed waits only "time out" when
nothing else can run - to the oracles that is a hang.

Usage:
    S = Scheduler(policy)
    with S.installed():              # patches strax.mailbox.threading etc.
        result = S.run(fn)           # fn runs as controlled thread 0 ("main")
    S.report()  -> dict(steps, timeouts_fired, deadlock, leftover, ...)
"""
import collections
import contextlib
import io
import pickle
import sys
import _thread
import threading as _rt
import types
from concurrent.futures import ALL_COMPLETED, FIRST_COMPLETED, FIRST_EXCEPTION, Future
from concurrent.futures import TimeoutError as FutTimeout

_CURRENT = None  # the installed scheduler


class SchedAbort(BaseException):
    """Raised inside controlled threads to unwind them when a case is over (deadlock / teardown)."""


class HarnessProblem(Exception):
    pass


class CT:
    """Controlled thread."""

    __slots__ = ("tid", "name", "sem", "state", "blocked_on", "timed", "timeout", "timeout_fired", "real", "done",
                 "exc", "joiners", "blocked_seq", "daemon_like")

    def __init__(self, tid, name):
        self.tid = tid
        self.name = name
        self.sem = _thread.allocate_lock()  # binary semaphore: held = parked
        self.sem.acquire()
        self.state = "runnable"  # runnable | blocked | parked
        self.blocked_on = None
        self.timed = False
        self.timeout = None
        self.timeout_fired = False
        self.real = None
        self.done = False
        self.exc = None
        self.joiners = []
        self.blocked_seq = 0

    def __repr__(self):
        return f"<CT {self.tid}:{self.name} {self.state}{' done' if self.done else ''}>"


class Scheduler:
    def __init__(self, policy, fire_timeouts=True, max_steps=2_000_000, trace_files=(), observer=None):
        self.policy = policy
        self.fire_timeouts = fire_timeouts
        self.max_steps = max_steps
        self.trace_files = tuple(trace_files)
        self.observer = observer  # callable(sched, why) called at every step while exactly one thread runs
        self.threads = []
        self.cur = None
        self.steps = 0
        self.decisions = 0
        self.preemptions = 0
        self.timeouts_fired = 0
        self.timeout_events = []
        self.deadlock = None
        self.abort = False
        self.trace = []  # chosen tid at every decision point with >1 runnable
        self.kinds = collections.Counter()
        self.seq = 0
        self.quiescent_result = None
        self.step_limit_hit = False
        self.switch_log = collections.Counter()  # (why) -> number of real preemptions there
        self.record_decisions = False
        self.dlog = []

    # ---- registration -------------------------------------------------------------------------
    def _new_thread(self, name):
        t = CT(len(self.threads), name)
        self.threads.append(t)
        return t

    def me(self):
        return self.cur

    def runnable(self):
        return [t for t in self.threads if t.state == "runnable" and not t.done]

    # ---- the heart ----------------------------------------------------------------------------
    def switch(self, why=""):
        """The running thread offers the scheduler a chance to run someone else.  The current thread may be
        runnable, blocked, parked or done."""
        me = self.cur
        self.steps += 1
        self.kinds[why] += 1
        if self.observer is not None and not self.abort:
            self.observer(self, why)
        if self.steps > self.max_steps and not self.abort:
            self.step_limit_hit = True
            self._start_abort(("step-limit", None))
        while True:
            if self.abort:
                for t in self.threads:
                    if not t.done and t.state != "runnable":
                        t.state = "runnable"
            r = self.runnable()
            if r:
                break
            live = [t for t in self.threads if not t.done]
            if not live:
                return
            parked = [t for t in live if t.state == "parked"]
            if parked:
                # quiescence: everything else is blocked; hand control to the parked thread(s)
                for t in parked:
                    t.state = "runnable"
                self.quiescent_result = [(t.name, t.blocked_on) for t in live if t.state == "blocked"]
                continue
            timed = [t for t in live if t.state == "blocked" and t.timed]
            if timed and self.fire_timeouts:
                t = min(timed, key=lambda t: (t.timeout, t.blocked_seq))
                t.timeout_fired = True
                t.state = "runnable"
                self.timeouts_fired += 1
                self.timeout_events.append((t.name, repr(t.blocked_on)))
                if self.timeouts_fired == 1:
                    self.first_timeout_map = [(x.name, x.state, repr(x.blocked_on), x.timed) for x in live]
                    if getattr(self, "on_first_timeout", None):
                        self.on_first_timeout(self)
                continue
            self._start_abort(("deadlock", [(t.name, repr(t.blocked_on)) for t in live]))
        if self.abort:
            # unwind: run the others first, main last
            others = [t for t in r if t.tid != 0]
            nxt = others[0] if others else r[0]
        elif len(r) == 1:
            nxt = r[0]
        else:
            nxt = self.policy.choose(self, r, me, why)
            self.decisions += 1
            self.trace.append(nxt.tid)
            if self.record_decisions:
                self.dlog.append((me.tid if me in r else None, tuple(t.tid for t in r), nxt.tid))
            if me in r and nxt is not me:
                self.preemptions += 1
                self.switch_log[why] += 1
        if nxt is me:
            if self.abort:
                raise SchedAbort()
            return
        self.cur = nxt
        nxt.sem.release()
        if not me.done:
            me.sem.acquire()
            if self.abort:
                raise SchedAbort()

    def _start_abort(self, reason):
        if not self.abort:
            self.abort = True
            if reason[0] == "deadlock":
                self.deadlock = reason[1]

    def block(self, on, timed=False, timeout=None):
        """Block the current thread until someone makes it runnable.  Returns True if woken by a virtual timeout."""
        me = self.cur
        if self.abort:
            raise SchedAbort()
        me.state = "blocked"
        me.blocked_on = on
        me.timed = timed
        me.timeout = timeout if timeout is not None else float("inf")
        me.timeout_fired = False
        self.seq += 1
        me.blocked_seq = self.seq
        try:
            self.switch("block")
        finally:
            me.blocked_on = None
            fired = me.timeout_fired
            me.timeout_fired = False
            me.timed = False
        return fired

    def wake(self, t):
        if t.state == "blocked":
            t.state = "runnable"

    def park(self):
        """Current thread sleeps until everything else is blocked (quiescence) - returns the blocked-on map."""
        me = self.cur
        me.state = "parked"
        self.quiescent_result = None
        self.switch("park")
        return self.quiescent_result

    # ---- running a case -----------------------------------------------------------------------
    def run(self, fn):
        global _CURRENT
        assert _CURRENT is self, "use `with S.installed():`"
        main = self._new_thread("main")
        main.real = _rt.current_thread()
        self.cur = main
        result = exc = None
        try:
            result = fn()
        except SchedAbort:
            exc = None
        except BaseException as e:  # noqa
            exc = e
        # teardown: unwind whatever is still alive
        main_done_normally = not self.abort
        leftover = [t.name for t in self.threads if not t.done and t.tid != 0]
        self.leftover_at_return = leftover if main_done_normally else []
        self.abort = True
        guard = 0
        while any(not t.done for t in self.threads if t.tid != 0):
            guard += 1
            if guard > 100000:
                raise HarnessProblem("controlled threads do not unwind: %r" % [t for t in self.threads if not t.done])
            try:
                self.switch("teardown")
            except SchedAbort:
                pass
        main.done = True
        for t in self.threads[1:]:
            if t.real is not None:
                t.real.join(timeout=10)
                if t.real.is_alive():
                    raise HarnessProblem(f"controlled thread {t.name} outlives its case")
        return result, exc

    # ---- line tracing -------------------------------------------------------------------------
    def _tracer(self, frame, event, arg):
        if event != "call":
            return None
        fn = frame.f_code.co_filename
        for tf in self.trace_files:
            if fn.endswith(tf):
                return self._line_tracer
        return None

    def _line_tracer(self, frame, event, arg):
        if event == "line" and not self.abort and _rt.current_thread() is getattr(self.cur, "real", None):
            self.switch("line")
        return self._line_tracer

    # ---- installation -------------------------------------------------------------------------
    @contextlib.contextmanager
    def installed(self):
        global _CURRENT
        import strax
        import strax.mailbox
        import strax.processors.threaded_mailbox as tm
        import strax.storage.common as sc
        import strax.utils as su

        if _CURRENT is not None:
            raise HarnessProblem("a scheduler is already installed")
        _CURRENT = self
        saved = [
            (strax.mailbox, "threading", strax.mailbox.threading),
            (tm, "futures", tm.futures),
            (tm, "ProcessPoolExecutor", tm.ProcessPoolExecutor),
            (su, "ThreadPoolExecutor", su.ThreadPoolExecutor),
            (su, "wait", su.wait),
            (sc, "wait", sc.wait),
        ]
        strax.mailbox.threading = SHIM_THREADING
        tm.futures = SHIM_FUTURES
        tm.ProcessPoolExecutor = SimProcessExecutor
        su.ThreadPoolExecutor = CtlExecutor
        su.wait = ctl_wait
        sc.wait = ctl_wait
        if self.trace_files:
            sys.settrace(self._tracer)
        try:
            yield self
        finally:
            if self.trace_files:
                sys.settrace(None)
            for mod, name, val in saved:
                setattr(mod, name, val)
            _CURRENT = None

    def report(self):
        return dict(steps=self.steps, decisions=self.decisions, preemptions=self.preemptions,
                    timeouts_fired=self.timeouts_fired, timeout_events=self.timeout_events[:5],
                    deadlock=self.deadlock, threads=len(self.threads), step_limit_hit=self.step_limit_hit,
                    leftover=getattr(self, "leftover_at_return", []))


def S() -> Scheduler:
    if _CURRENT is None:
        raise HarnessProblem("controlled primitive used without an installed scheduler")
    return _CURRENT


# ---- shims -------------------------------------------------------------------------------------
class RLock:
    def __init__(self):
        self.owner = None
        self.count = 0
        self.waiters = []

    def acquire(self, blocking=True, timeout=-1):
        s = S()
        me = s.me()
        if s.abort:
            raise SchedAbort()
        if self.owner is not me:
            s.switch("acquire")
        while not (self.owner is None or self.owner is me):
            if not blocking:
                return False
            self.waiters.append(me)
            fired = s.block(("lock", id(self)), timed=timeout is not None and timeout >= 0, timeout=timeout)
            if fired:
                if me in self.waiters:
                    self.waiters.remove(me)
                return False
        self.owner = me
        self.count += 1
        return True

    def release(self):
        s = S()
        if s.abort:
            self.owner = None
            self.count = 0
            return
        if self.owner is not s.me():
            raise RuntimeError("cannot release un-acquired lock")
        self.count -= 1
        if self.count == 0:
            self.owner = None
            for w in self.waiters:
                s.wake(w)
            self.waiters = []
            s.switch("release")

    __enter__ = acquire

    def __exit__(self, *a):
        self.release()

    def _release_save(self):
        s = S()
        c = self.count
        self.count = 0
        self.owner = None
        for w in self.waiters:
            s.wake(w)
        self.waiters = []
        return c

    def _acquire_restore(self, c):
        s = S()
        me = s.me()
        while not (self.owner is None or self.owner is me):
            self.waiters.append(me)
            s.block(("lock", id(self)))
        self.owner = me
        self.count = c

    def locked(self):
        return self.owner is not None

    def __repr__(self):
        return f"<CtlRLock owner={self.owner and self.owner.name} count={self.count}>"


class Lock(RLock):
    pass


class Condition:
    def __init__(self, lock=None):
        self._lock = lock if lock is not None else RLock()
        self.waiters = []
        self.acquire = self._lock.acquire
        self.release = self._lock.release

    def __enter__(self):
        return self._lock.__enter__()

    def __exit__(self, *a):
        return self._lock.__exit__(*a)

    def wait(self, timeout=None):
        s = S()
        me = s.me()
        if s.abort:
            raise SchedAbort()
        if self._lock.owner is not me:
            raise RuntimeError("cannot wait on un-acquired lock")
        c = self._lock._release_save()
        self.waiters.append(me)
        try:
            fired = s.block(("cond", id(self)), timed=timeout is not None, timeout=timeout)
        finally:
            if me in self.waiters:
                self.waiters.remove(me)
            if not s.abort:
                self._lock._acquire_restore(c)
        return not fired

    def wait_for(self, predicate, timeout=None):
        result = predicate()
        while not result:
            ok = self.wait(timeout)
            result = predicate()
            if not ok:
                break
        return result

    def notify(self, n=1):
        s = S()
        if s.abort:
            return
        if self._lock.owner is not s.me():
            raise RuntimeError("cannot notify on un-acquired lock")
        for w in self.waiters[:n]:
            s.wake(w)
        self.waiters = self.waiters[n:]

    def notify_all(self):
        self.notify(len(self.waiters))

    notifyAll = notify_all


class Event:
    def __init__(self):
        self._flag = False
        self.waiters = []

    def is_set(self):
        return self._flag

    def set(self):
        s = S()
        self._flag = True
        for w in self.waiters:
            s.wake(w)
        self.waiters = []
        if not s.abort:
            s.switch("event.set")

    def clear(self):
        self._flag = False

    def wait(self, timeout=None):
        s = S()
        s.switch("event.wait")
        while not self._flag:
            self.waiters.append(s.me())
            if s.block(("event", id(self)), timed=timeout is not None, timeout=timeout):
                break
        return self._flag


class Thread:
    def __init__(self, group=None, target=None, name=None, args=(), kwargs=None, daemon=None):
        self._target = target
        self.name = name or "Thread"
        self._args = args
        self._kwargs = kwargs or {}
        self.daemon = daemon
        self.ct = None

    def run(self):
        if self._target is not None:
            self._target(*self._args, **self._kwargs)

    def start(self):
        s = S()
        if s.abort:
            raise SchedAbort()
        ct = s._new_thread(self.name)
        self.ct = ct

        def body():
            ct.sem.acquire()
            if s.trace_files:
                sys.settrace(s._tracer)
            try:
                if not s.abort:
                    self.run()
            except SchedAbort:
                pass
            except BaseException as e:  # noqa - like threading: the thread dies, exception recorded
                ct.exc = e
            finally:
                sys.settrace(None)
                ct.done = True
                for j in ct.joiners:
                    s.wake(j)
                ct.joiners = []
                try:
                    s.switch("exit")
                except SchedAbort:
                    pass

        ct.real = _rt.Thread(target=body, name="ctl:" + self.name, daemon=True)
        ct.real.start()
        s.switch("spawn")

    def join(self, timeout=None):
        s = S()
        if self.ct is None:
            raise RuntimeError("cannot join thread before it is started")
        if s.abort:
            return
        s.switch("join")
        while not self.ct.done:
            self.ct.joiners.append(s.me())
            if s.block(("join", self.name), timed=timeout is not None, timeout=timeout):
                break

    def is_alive(self):
        return self.ct is not None and not self.ct.done


SHIM_THREADING = types.SimpleNamespace(
    Thread=Thread, RLock=RLock, Lock=Lock, Condition=Condition, Event=Event,
    current_thread=_rt.current_thread, enumerate=_rt.enumerate, get_ident=_rt.get_ident,
    main_thread=_rt.main_thread, active_count=_rt.active_count, local=_rt.local,
)


# ---- futures / executors -------------------------------------------------------------------------
class CtlFuture(Future):
    def __init__(self):
        super().__init__()
        self._ctl_waiters = []

    def _wake_all(self):
        s = S()
        for w in self._ctl_waiters:
            s.wake(w)
        self._ctl_waiters = []

    def set_result(self, result):
        super().set_result(result)
        self._wake_all()

    def set_exception(self, exception):
        super().set_exception(exception)
        self._wake_all()

    def _ctl_wait_done(self, timeout):
        s = S()
        if s.abort:
            raise SchedAbort()
        s.switch("future.wait")
        while not self.done():
            self._ctl_waiters.append(s.me())
            if s.block(("future", id(self)), timed=timeout is not None, timeout=timeout):
                raise FutTimeout()

    def result(self, timeout=None):
        if not self.done():
            self._ctl_wait_done(timeout)
        return super().result(timeout=0)

    def exception(self, timeout=None):
        if not self.done():
            self._ctl_wait_done(timeout)
        return super().exception(timeout=0)


def ctl_wait(fs, timeout=None, return_when=ALL_COMPLETED):
    s = S()
    fs = list(fs)
    if s.abort:
        raise SchedAbort()
    s.switch("futures.wait")

    def satisfied():
        done = [f for f in fs if f.done()]
        if return_when == FIRST_COMPLETED:
            return bool(done) or not fs
        if return_when == FIRST_EXCEPTION:
            if any((not f.cancelled()) and Future.exception(f, 0) is not None for f in done):
                return True
        return len(done) == len(fs)

    while not satisfied():
        me = s.me()
        for f in fs:
            if not f.done():
                if not isinstance(f, CtlFuture):
                    raise HarnessProblem("wait() on an uncontrolled future")
                f._ctl_waiters.append(me)
        fired = s.block(("wait", len(fs)), timed=timeout is not None, timeout=timeout)
        for f in fs:
            if isinstance(f, CtlFuture) and me in f._ctl_waiters:
                f._ctl_waiters.remove(me)
        if fired:
            break
    done = set(f for f in fs if f.done())
    DoneAndNotDone = collections.namedtuple("DoneAndNotDoneFutures", "done not_done")
    return DoneAndNotDone(done, set(fs) - done)


class CtlExecutor:
    """Thread-pool executor whose workers are controlled threads."""

    def __init__(self, max_workers=None, **kw):
        self.max_workers = max_workers or 4
        self.queue = collections.deque()
        self.workers = []
        self.idle = []
        self._shutdown = False

    def submit(self, fn, *args, **kwargs):
        s = S()
        if s.abort:
            raise SchedAbort()
        if self._shutdown:
            raise RuntimeError("cannot schedule new futures after shutdown")
        f = CtlFuture()
        self.queue.append((f, fn, args, kwargs))
        if self.idle:
            s.wake(self.idle.pop(0))
        elif len(self.workers) < self.max_workers:
            t = Thread(target=self._worker, name=f"worker{len(self.workers)}")
            self.workers.append(t)
            t.start()
        else:
            s.switch("submit")
        return f

    def _worker(self):
        s = S()
        while True:
            while not self.queue:
                if self._shutdown:
                    return
                self.idle.append(s.me())
                s.block(("idle-worker", id(self)))
                if s.me() in self.idle:
                    self.idle.remove(s.me())
            f, fn, args, kwargs = self.queue.popleft()
            if not f.set_running_or_notify_cancel():
                continue
            try:
                res = fn(*args, **kwargs)
            except SchedAbort:
                raise
            except BaseException as e:  # noqa
                f.set_exception(e)
            else:
                f.set_result(res)
            s.switch("task-done")

    def shutdown(self, wait=True, cancel_futures=False):
        s = S()
        self._shutdown = True
        if s.abort:
            return
        for w in list(self.idle):
            s.wake(w)
        self.idle = []
        if wait:
            for t in self.workers:
                t.join()

    def __enter__(self):
        return self

    def __exit__(self, *a):
        self.shutdown(wait=True)
        return False


# ---- simulated process pool ------------------------------------------------------------------------------
# A real ProcessPoolExecutor is outside the scheduler's control.  What distinguishes it semantically from a thread
# pool is the process boundary: the submitted callable (a bound plugin method, i.e. the plugin, its inlined
# sub-plugins and forked savers) and its arguments are pickled, the job runs on a COPY, and only the pickled
# result comes back - state changes made by the job are lost.  SimProcessExecutor reproduces exactly that on a
# controlled worker thread, so that strax's multiprocessing path (ParallelSourcePlugin: inlined plugins, forked
# savers writing per-chunk metadata files that close() collects) runs deterministically under generated schedules.
DYNAMIC_CLASSES = {}  # (token, class name) -> class; filled by vf.graphs.build_classes (classes made with type())


def _lookup_dynamic(token, name):
    return DYNAMIC_CLASSES[(token, name)]


class _Pickler(pickle.Pickler):
    def reducer_override(self, obj):
        if isinstance(obj, type):
            tok = obj.__dict__.get("_vf_token")
            if tok is not None and DYNAMIC_CLASSES.get((tok, obj.__name__)) is obj:
                return _lookup_dynamic, (tok, obj.__name__)
        return NotImplemented


def process_boundary(obj):
    """What arrives on the other side of a process boundary: a pickled-and-unpickled copy."""
    buf = io.BytesIO()
    _Pickler(buf, protocol=pickle.HIGHEST_PROTOCOL).dump(obj)
    return pickle.loads(buf.getvalue())


class SimProcessExecutor(CtlExecutor):
    crossings = 0

    def submit(self, fn, *args, **kwargs):
        payload = process_boundary((fn, args, kwargs))  # pickling errors surface at submit, as with a real pool
        SimProcessExecutor.crossings += 1
        return super().submit(self._job, payload)

    @staticmethod
    def _job(payload):
        fn, args, kwargs = payload
        try:
            res = fn(*args, **kwargs)
        except SchedAbort:
            raise
        except BaseException as e:  # noqa
            try:
                e2 = process_boundary(e)
                e2.__traceback__ = e.__traceback__  # keep the frames for bucketing (a real pool adds them as text)
            except Exception:  # noqa
                e2 = e
            raise e2
        return process_boundary(res)


SHIM_FUTURES = types.SimpleNamespace(
    ThreadPoolExecutor=CtlExecutor, Future=Future, wait=ctl_wait, ALL_COMPLETED=ALL_COMPLETED,
    FIRST_COMPLETED=FIRST_COMPLETED, FIRST_EXCEPTION=FIRST_EXCEPTION, TimeoutError=FutTimeout,
)
