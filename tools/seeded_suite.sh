#!/bin/sh
# usage: tools/seeded_suite.sh <seed id> ...   -> .work/suite/<id>.txt
# Confirms "still passes the existing tests": the pinned suite, one pytest process per test file (8 at a time), on a
# scratch copy with the patch applied.  Failures are compared with the 12 baseline failures by tools/suite_verdict.py.
mkdir -p /verif/.work/suite
for SID in "$@"; do
  W=/tmp/seedsuite_$SID
  rm -rf $W; mkdir -p $W/logs
  (cd /repo && git archive HEAD) | tar -x -C $W
  (cd $W && patch -p1 -s < /verif/seeded/$SID/patch.diff) || { echo "PATCH FAILED" > /verif/.work/suite/$SID.txt; rm -rf $W; continue; }
  (cd $W && ls tests/test_*.py | xargs -P 8 -I{} sh -c 'PYTHONPATH='$W' nice -n 5 /venv/bin/python -m pytest -q -p no:cacheprovider --timeout=900 {} > logs/$(basename {}).log 2>&1')
  cat $W/logs/*.log | grep -E "^(FAILED|ERROR|SUBFAILED)" | sed 's/ - .*//' | sort > /verif/.work/suite/$SID.txt
  cat $W/logs/*.log | grep -E "^[0-9]+ (passed|failed)|^(=+ )?[0-9]+ (passed|failed)" | tr '\n' ';' >> /verif/.work/suite/$SID.txt
  rm -rf $W
done
