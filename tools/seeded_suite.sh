#!/bin/sh
# usage: tools/seeded_suite.sh <seed id> ...   -> .work/suite/<id>.txt : pinned test suite on a scratch copy with the patch
# applied (confirms "still passes the existing tests": only the 12 baseline failures may fail)
mkdir -p /verif/.work/suite
for SID in "$@"; do
  W=/tmp/seedsuite_$SID
  rm -rf $W; mkdir -p $W
  (cd /repo && git archive HEAD) | tar -x -C $W
  (cd $W && patch -p1 -s < /verif/seeded/$SID/patch.diff) || { echo "PATCH FAILED" > /verif/.work/suite/$SID.txt; continue; }
  (cd $W && PYTHONPATH=$W nice -n 10 /venv/bin/python -m pytest -q -p no:cacheprovider --timeout=900 --continue-on-collection-errors tests > $W/log.txt 2>&1)
  grep -E "^(FAILED|ERROR|SUBFAILED)" $W/log.txt | sed 's/ - .*//' | sort > /verif/.work/suite/$SID.txt
  tail -1 $W/log.txt >> /verif/.work/suite/$SID.txt
  rm -rf $W
done
