#!/bin/sh
# usage: tools/sweep_all.sh "<scale> <tier> <seed>" ...   one line per (property, configuration) into sweep.log
for cfg in "$@"; do
  set -- $cfg; SC=$1; TIER=$2; SEED=$3
  for c in C01 C02 C03 C04 C05 C06 C07 C08 C09 C10 C11 C12 C13 C14 C15 C16 C17 C18 C19; do
    s=$(date +%s)
    VERIF_SCALE=$SC VERIF_SEED=$SEED timeout 10000 ./check $c --tier $TIER --no-evidence > sw_${c}_${TIER}_${SEED}.log 2>&1
    echo "$c scale=$SC tier=$TIER seed=$SEED rc=$? t=$(( $(date +%s)-s ))s viol=$(grep -c '^VIOLATION' sw_${c}_${TIER}_${SEED}.log)" >> sweep.log
    grep -E "violation:|HARNESS" sw_${c}_${TIER}_${SEED}.log | cut -c1-500 >> sweep.log
    mkdir -p found; cp replay/found/$c-* found/ 2>/dev/null; rm -f replay/found/$c-*
  done
done
echo ALL-DONE >> sweep.log
