#!/bin/sh
# usage: tools/thorough_all.sh "C01 C14 ..."  -> thorough.log (one line per property) + thorough_<id>.log
for c in $1; do
  s=$(date +%s)
  timeout 7200 ./check $c --tier thorough --no-evidence > thorough_$c.log 2>&1
  echo "$c rc=$? t=$(( $(date +%s)-s ))s viol=$(grep -c '^VIOLATION' thorough_$c.log) $(grep -E '^\[C..\] tier' thorough_$c.log | tail -1)" >> thorough.log
  grep -E "violation:|HARNESS" thorough_$c.log | cut -c1-400 >> thorough.log
  mkdir -p found_$c; cp replay/found/$c-* found_$c/ 2>/dev/null
done
echo ALL-DONE >> thorough.log
