#!/bin/sh
# usage: tools/seedsweep.sh "C01 C05 ..." "1 2 3"   -> .work/sweep.log
for s in $2; do for c in $1; do
  VERIF_SEED=$s timeout 3400 ./check $c --tier quick --no-evidence > .work/sweep_$c_$s.log 2>&1
  echo "$c seed=$s rc=$? $(grep -E '^\[C..\] tier' .work/sweep_$c_$s.log | tail -1) $(grep -c VIOLATION .work/sweep_$c_$s.log) $(grep -E 'HARNESS' .work/sweep_$c_$s.log | head -1 | cut -c1-200)" >> .work/sweep.log
  grep -E "violation:" .work/sweep_$c_$s.log | cut -c1-300 >> .work/sweep.log
done; done
echo SWEEP-DONE >> .work/sweep.log
