"""python tools/suite_verdict.py : compare .work/suite/<id>.txt with the 12 baseline failures; writes suite_confirmed into
seeded/<id>/meta.json.  Known load-dependent tests (time-outs of 0.1-5 s in the test itself) are listed separately."""
import glob, json, os, re
BASE = {
 "tests/test_context.py::TestContext::test_register_all_no_defaults_and_allowed",
 "tests/test_context.py::TestContext::test_register_no_defaults",
 "tests/test_context.py::TestContext::test_register_no_defaults_but_allowed",
 "tests/test_context.py::TestContext::test_register_with_defaults_and_allowed",
 "tests/test_context.py::TestContext::test_scan_runs__provided_dtypes__available_for_run",
 "tests/test_core.py::test_datadirectory_deleted",
 "tests/test_core.py::test_filestore[False-1-single_thread]",
 "tests/test_core.py::test_filestore[False-1-threaded_mailbox]",
 "tests/test_core.py::test_filestore[True-2-threaded_mailbox]",
 "tests/test_core.py::test_fuzzy_matching",
 "tests/test_superruns.py::TestSuperRuns::test_select_runs_with_superruns",
 "tests/test_utils.py::TestMultiRun::test_multi_run_memory_profile",
}
# tests with wall-clock limits inside the test (0.1-5 s mailbox timeouts, hypothesis 200 ms deadlines): fail under load only;
# each was re-run alone on the patched tree when it showed up (C07a: tests/test_config.py 4 passed)
LOAD = ("test_rechunk_parallelization", "tests/test_mailbox.py::", "tests/test_config.py::TestPluginConfig::", "tests/test_peak_processing.py::test_sum_waveform")
for f in sorted(glob.glob("/verif/.work/suite/*.txt")):
    sid = os.path.basename(f)[:-4]
    lines = [l.strip() for l in open(f) if l.strip()]
    fails = [re.sub(r"^(FAILED|ERROR|SUBFAILED\([^)]*\)) ", "", l) for l in lines if l.startswith(("FAILED", "ERROR", "SUBFAILED"))]
    extra = sorted(set(fails) - BASE)
    load = [x for x in extra if any(k in x for k in LOAD)]
    real = [x for x in extra if x not in load]
    missing = sorted(BASE - set(fails))
    verdict = "PATCH FAILED" if lines[:1] == ["PATCH FAILED"] else ("baseline failures only" if not real else "EXTRA: " + "; ".join(real))
    if load:
        verdict += " (+ load-dependent: " + "; ".join(load) + ")"
    print(sid, "|", verdict, "| baseline failures not seen:", len(missing))
    mp = f"/verif/seeded/{sid}/meta.json"
    if os.path.exists(mp):
        m = json.load(open(mp))
        m["suite_confirmed"] = f"tools/seeded_suite.sh (pinned suite on a scratch copy of /repo HEAD with the patch): {verdict}"
        json.dump(m, open(mp, "w"), indent=1)
