"""Regenerates the generated blocks of DESIGN.md (between <!-- BEGIN x --> and <!-- END x --> markers):
findings (from known_findings.json) and seeded (from seeded/*/meta.json)."""
import glob, json, os, re
HERE = os.path.dirname(os.path.dirname(os.path.abspath(__file__)))


def findings():
    k = json.load(open(os.path.join(HERE, "known_findings.json")))["entries"]
    rows = ["| finding | property | status | commit | what failed |", "|---|---|---|---|---|"]
    seen = set()
    for e in sorted(k, key=lambda e: (e["property"], e["finding"])):
        what = e["what"].replace("|", "/")
        rows.append(f"| {e['finding']} | {e['property']}{(' (+' + ','.join(e['also_properties']) + ')') if e.get('also_properties') else ''} "
                    f"| {e['status']} | {e.get('commit') or '-'} | {what} |")
    return "\n".join(rows)


def seeded():
    rows = ["| id | property | breaks | needs to manifest | caught by |", "|---|---|---|---|---|"]
    for p in sorted(glob.glob(os.path.join(HERE, "seeded", "*", "meta.json"))):
        m = json.load(open(p))
        f = lambda s: str(s).replace("|", "/").replace("\n", " ")
        rows.append(f"| {m['id']} | {m['property']} | {f(m['breaks'])} | {f(m['needs_to_manifest'])} | {f(m['caught_by'])} |")
    return "\n".join(rows)


def main():
    p = os.path.join(HERE, "DESIGN.md")
    s = open(p).read()
    for name, fn in (("findings", findings), ("seeded", seeded)):
        b, e = f"<!-- BEGIN {name} -->", f"<!-- END {name} -->"
        if b in s and e in s:
            s = s[: s.index(b) + len(b)] + "\n" + fn() + "\n" + s[s.index(e):]
    open(p, "w").write(s)
    print("ok")


if __name__ == "__main__":
    main()
