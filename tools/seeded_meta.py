"""python tools/seeded_meta.py <seed id> <property> '<needs>' '<breaks>' '<caught_by>' '<ran>' """
import json, sys, os
sid, prop, needs, breaks, caught, ran = sys.argv[1:7]
d = dict(id=sid, property=prop, breaks=breaks, needs_to_manifest=needs, caught_by=caught, what_was_run=ran,
         files=["patch.diff", "demo.py"], origin="independent sub-agent given only the property text and a scratch worktree")
json.dump(d, open(os.path.join("/verif/seeded", sid, "meta.json"), "w"), indent=1)
print("ok")
