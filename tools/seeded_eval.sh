#!/bin/sh
# usage: tools/seeded_eval.sh <seed id e.g. C07a> <property id> <patch file> <demo file> [extra check ids...]
# Confirms a seeded change in a scratch copy: demo fails with / passes without the change; runs our check(s).
SID=$1; PID=$2; PATCH=$3; DEMO=$4; shift 4
W=/tmp/seedeval_$SID
rm -rf $W; mkdir -p $W/clean $W/mut
(cd /repo && git archive HEAD strax tests pytest.ini setup.cfg pyproject.toml) | tar -x -C $W/clean
cp -r $W/clean/. $W/mut/
(cd $W/mut && patch -p1 -s < $PATCH) || { echo "PATCH FAILED"; exit 2; }
cp $DEMO $W/demo.py
echo "== demo on clean"; (cd $W/clean && PYTHONPATH=$W/clean timeout 900 /venv/bin/python $W/demo.py > $W/demo_clean.log 2>&1; echo "exit=$?"); tail -2 $W/demo_clean.log
echo "== demo on mutant"; (cd $W/mut && PYTHONPATH=$W/mut timeout 900 /venv/bin/python $W/demo.py > $W/demo_mut.log 2>&1; echo "exit=$?"); tail -3 $W/demo_mut.log
for C in $PID "$@"; do
  echo "== our check $C on mutant (quick)"
  (cd /verif && VERIF_REPO=$W/mut timeout 3400 ./check $C --tier quick --no-evidence > $W/check_$C.log 2>&1; echo "exit=$?")
  grep -E "VIOLATION|violation:|HARNESS" $W/check_$C.log | head -6 | cut -c1-400
done
echo "logs in $W"
